"""E0 -- shape normalisation of a parsed module, applied by Repo.tree() before any rule sees the code.

Two behaviour-preserving rewrites make routine refactorings invisible to the rules:

* helper inlining: a call to a function of the SAME module (module-level function, method of the same class called through
  self / cls / the class name, or a def nested in the calling function) that is not in the committed inventory of the analysed
  tree (sa/inventory.json: the names the rules may anchor on) is replaced by the helper's body.  "Extract method" therefore
  leaves the analysed function as it was before the extraction.  Helpers with early returns are first brought into single-exit
  form (the statements after an `if` that returns are pushed into its branches); a helper that returns from inside a loop, a
  try or a with block, yields, or takes *args/**kwargs is left alone.  A list comprehension assigned to a name whose element
  calls such a helper is first rewritten as the equivalent append loop, so that the call can be inlined there.
* conditional expressions: `T = a if c else b` as the whole value of an assignment / return is rewritten to the if-statement
  form, so the two spellings of a two-way choice are one shape (applies to every function, old or new).
* constant substitution: a load of a module-level or class-level name that is not in the inventory and is bound exactly once to
  a literal expression (numbers, strings, tuples/lists/dicts/sets of those, arithmetic over them, references to names of the
  module) is replaced by that expression, so `_M_PER_FT = 0.3048 ... x * _M_PER_FT` reads `x * 0.3048` again.

Nothing here looks at what the code computes; the rewrites are the textbook ones and are applied to every module alike.
Line numbers of inlined statements are those of the call site (reports point at the analysed function).
"""
import ast
import copy
import json
import os

_INV = None


def inventory():
    global _INV
    if _INV is None:
        p = os.path.join(os.path.dirname(os.path.abspath(__file__)), "inventory.json")
        try:
            with open(p) as f:
                _INV = json.load(f)
        except (OSError, ValueError):
            _INV = {}
    return _INV


def module_inventory(tree):
    """names defined by a module: function qualnames (nested ones dotted), module/class level assigned names."""
    funcs, consts = set(), set()

    def visit(body, prefix, in_func):
        for n in body:
            if isinstance(n, (ast.FunctionDef, ast.AsyncFunctionDef)):
                funcs.add(prefix + n.name)
                for m in ast.walk(n):
                    if m is not n and isinstance(m, (ast.FunctionDef, ast.AsyncFunctionDef)):
                        funcs.add(prefix + n.name + "." + m.name)
            elif isinstance(n, ast.ClassDef):
                funcs.add(prefix + n.name)
                visit(n.body, prefix + n.name + ".", False)
            elif isinstance(n, (ast.Assign, ast.AnnAssign)) and not in_func:
                tg = n.targets if isinstance(n, ast.Assign) else [n.target]
                for t in tg:
                    for x in ast.walk(t):
                        if isinstance(x, ast.Name):
                            consts.add(prefix + x.id)
            elif isinstance(n, (ast.If, ast.Try)) and not in_func:
                for sub in ("body", "orelse", "finalbody"):
                    visit(getattr(n, sub, []) or [], prefix, in_func)
                for h in getattr(n, "handlers", []) or []:
                    visit(h.body, prefix, in_func)
    visit(tree.body, "", False)
    return {"funcs": sorted(funcs), "consts": sorted(consts)}


# --------------------------------------------------------------------------------------------- helpers
class NotInlinable(Exception):
    pass


def _contains(node_or_list, types, stop=(ast.FunctionDef, ast.AsyncFunctionDef, ast.Lambda, ast.ClassDef)):
    todo = list(node_or_list) if isinstance(node_or_list, list) else [node_or_list]
    while todo:
        n = todo.pop()
        if isinstance(n, types):
            return True
        for c in ast.iter_child_nodes(n):
            if isinstance(c, stop):
                continue
            todo.append(c)
    return False


def _tailify(stmts, ret_name):
    """single-exit form: every `return e` becomes `ret_name = e` in tail position."""
    out = []
    for i, s in enumerate(stmts):
        if isinstance(s, ast.Return):
            val = s.value if s.value is not None else ast.Constant(value=None)
            out.append(ast.Assign(targets=[ast.Name(id=ret_name, ctx=ast.Store())], value=val, lineno=s.lineno, col_offset=0))
            return out, True
        if isinstance(s, ast.Raise):
            out.append(s)
            return out, True
        if isinstance(s, ast.If) and _contains(s, ast.Return):
            rest = stmts[i + 1:]
            b, _ = _tailify(list(s.body) + copy.deepcopy(rest), ret_name)
            e, _ = _tailify(list(s.orelse) + copy.deepcopy(rest), ret_name)
            out.append(ast.If(test=s.test, body=b or [ast.Pass()], orelse=e, lineno=s.lineno, col_offset=0))
            return out, True
        if _contains(s, ast.Return):
            raise NotInlinable("return inside %s" % type(s).__name__)
        out.append(s)
    # falls off the end: returns None
    out.append(ast.Assign(targets=[ast.Name(id=ret_name, ctx=ast.Store())], value=ast.Constant(value=None), lineno=getattr(stmts[-1], "lineno", 1) if stmts else 1, col_offset=0))
    return out, False


def _simple_arg(e):
    """side-effect free and cheap to duplicate"""
    if isinstance(e, (ast.Name, ast.Constant)):
        return True
    if isinstance(e, ast.Attribute):
        return _simple_arg(e.value)
    if isinstance(e, ast.Subscript):
        return _simple_arg(e.value) and _simple_arg(e.slice)
    if isinstance(e, ast.UnaryOp):
        return _simple_arg(e.operand)
    if isinstance(e, ast.Tuple):
        return all(_simple_arg(x) for x in e.elts)
    return False


def _stored_names(fn_or_stmts):
    out = set()
    todo = list(fn_or_stmts) if isinstance(fn_or_stmts, list) else [fn_or_stmts]
    while todo:
        n = todo.pop()
        if isinstance(n, ast.Name) and isinstance(n.ctx, (ast.Store, ast.Del)):
            out.add(n.id)
        elif isinstance(n, (ast.FunctionDef, ast.AsyncFunctionDef, ast.ClassDef)) and n is not fn_or_stmts:
            out.add(n.name)
            continue
        elif isinstance(n, ast.arg):
            out.add(n.arg)
        elif isinstance(n, (ast.Import, ast.ImportFrom)):
            for a in n.names:
                out.add((a.asname or a.name).split(".")[0])
        todo.extend(ast.iter_child_nodes(n))
    return out


def _all_names(fn):
    return {n.id for n in ast.walk(fn) if isinstance(n, ast.Name)} | {a.arg for a in ast.walk(fn) if isinstance(a, ast.arg)}


class _Subst(ast.NodeTransformer):
    def __init__(self, mapping, rename):
        self.mapping = mapping      # name -> expression AST (copied per use)
        self.rename = rename        # name -> new name

    def visit_Name(self, n):
        if n.id in self.mapping and isinstance(n.ctx, ast.Load):
            return ast.copy_location(copy.deepcopy(self.mapping[n.id]), n)
        if n.id in self.rename:
            return ast.copy_location(ast.Name(id=self.rename[n.id], ctx=n.ctx), n)
        return n

    def visit_arg(self, n):
        if n.arg in self.rename:
            n.arg = self.rename[n.arg]
        return n

    def visit_FunctionDef(self, n):
        if n.name in self.rename:
            n.name = self.rename[n.name]
        self.generic_visit(n)
        return n


def _set_lines(nodes, lineno):
    for s in nodes:
        for n in ast.walk(s):
            if hasattr(n, "lineno"):
                n.lineno = lineno
                n.end_lineno = lineno
            if hasattr(n, "col_offset"):
                n.col_offset = 0
                n.end_col_offset = 0


class _ReplaceNode(ast.NodeTransformer):
    def __init__(self, target, repl):
        self.target, self.repl = target, repl

    def visit(self, n):
        if n is self.target:
            return self.repl
        return self.generic_visit(n)


class ModuleNormalizer(object):
    MAX_ROUNDS = 12

    def __init__(self, tree, known):
        self.tree = tree
        self.known_funcs = set(known.get("funcs", ()))
        self.known_consts = set(known.get("consts", ()))
        self.counter = 0
        self.log = []

    # ------------------------------------------------------------------ candidate tables
    def _index(self):
        self.mod_funcs = {}
        self.cls_funcs = {}
        self.mod_consts = {}
        self.cls_consts = {}
        counts = {}
        for n in self.tree.body:
            if isinstance(n, ast.FunctionDef):
                self.mod_funcs[n.name] = n
            elif isinstance(n, ast.ClassDef):
                d = self.cls_funcs.setdefault(n.name, {})
                for m in n.body:
                    if isinstance(m, ast.FunctionDef):
                        # a property getter/setter pair shares a name: never inline those
                        d[m.name] = m if m.name not in d else None
                    elif isinstance(m, ast.Assign) and len(m.targets) == 1 and isinstance(m.targets[0], ast.Name):
                        key = (n.name, m.targets[0].id)
                        counts[key] = counts.get(key, 0) + 1
                        self.cls_consts[key] = m.value
            elif isinstance(n, ast.Assign) and len(n.targets) == 1 and isinstance(n.targets[0], ast.Name):
                key = n.targets[0].id
                counts[key] = counts.get(key, 0) + 1
                self.mod_consts[key] = n.value
        # names bound more than once (or rebound with global) are not constants
        for k, c in counts.items():
            if c > 1:
                (self.cls_consts if isinstance(k, tuple) else self.mod_consts).pop(k, None)
        for n in ast.walk(self.tree):
            if isinstance(n, ast.Global):
                for nm in n.names:
                    self.mod_consts.pop(nm, None)
        modnames = set(self.mod_funcs) | {n.name for n in self.tree.body if isinstance(n, ast.ClassDef)} | set(self.mod_consts)
        for n in self.tree.body:
            if isinstance(n, (ast.Import, ast.ImportFrom)):
                for a in n.names:
                    modnames.add((a.asname or a.name).split(".")[0])
        self.modnames = modnames
        # a container that the module mutates (a registry / cache filled at run time: NAME[k] = v, NAME.append(..), del NAME[k], NAME |= ..) is a shared
        # OBJECT, not a constant: substituting the literal for its uses would give every use a fresh empty container
        MUT = {"append", "extend", "insert", "add", "update", "setdefault", "pop", "popitem", "remove", "discard", "clear", "sort", "reverse", "appendleft"}
        mutated = set()
        for n in ast.walk(self.tree):
            if isinstance(n, ast.Subscript) and isinstance(n.ctx, (ast.Store, ast.Del)):
                b_ = n.value
                if isinstance(b_, ast.Name):
                    mutated.add(b_.id)
                elif isinstance(b_, ast.Attribute) and isinstance(b_.value, ast.Name):
                    mutated.add(b_.attr)
            elif isinstance(n, ast.Call) and isinstance(n.func, ast.Attribute) and n.func.attr in MUT:
                b_ = n.func.value
                if isinstance(b_, ast.Name):
                    mutated.add(b_.id)
                elif isinstance(b_, ast.Attribute) and isinstance(b_.value, ast.Name):
                    mutated.add(b_.attr)
            elif isinstance(n, ast.AugAssign):
                b_ = n.target
                if isinstance(b_, ast.Name):
                    mutated.add(b_.id)
                elif isinstance(b_, ast.Attribute) and isinstance(b_.value, ast.Name):
                    mutated.add(b_.attr)

        def container(v):
            return isinstance(v, (ast.List, ast.Dict, ast.Set)) or (isinstance(v, ast.Call) and isinstance(v.func, ast.Name) and v.func.id in ("dict", "list", "set", "OrderedDict", "defaultdict"))
        self.mod_consts = {k: v for k, v in self.mod_consts.items() if k not in self.known_consts and self._literal(v) and not (container(v) and k in mutated)}
        self.cls_consts = {k: v for k, v in self.cls_consts.items() if "%s.%s" % k not in self.known_consts and self._literal(v) and not (container(v) and k[1] in mutated)}

    def _literal(self, e, depth=0):
        if depth > 6:
            return False
        if isinstance(e, ast.Constant):
            return True
        if isinstance(e, ast.Name):
            return e.id in self.modnames or e.id in ("True", "False", "None", "frozenset", "set", "tuple", "dict", "list", "float", "int")
        if isinstance(e, ast.Attribute):
            return self._literal(e.value, depth + 1)
        if isinstance(e, (ast.Tuple, ast.List, ast.Set)):
            return all(self._literal(x, depth + 1) for x in e.elts)
        if isinstance(e, ast.Dict):
            return all(k is not None and self._literal(k, depth + 1) for k in e.keys) and all(self._literal(v, depth + 1) for v in e.values)
        if isinstance(e, ast.BinOp):
            return self._literal(e.left, depth + 1) and self._literal(e.right, depth + 1)
        if isinstance(e, ast.UnaryOp):
            return self._literal(e.operand, depth + 1)
        if isinstance(e, ast.Call) and isinstance(e.func, ast.Name) and e.func.id in ("frozenset", "set", "tuple", "dict", "list", "float", "int") and not e.keywords:
            return all(self._literal(a, depth + 1) for a in e.args)
        if isinstance(e, ast.Call) and isinstance(e.func, ast.Attribute) and isinstance(e.func.value, ast.Name) and e.func.value.id in ("np", "math", "numpy") \
                and e.func.attr in ("power", "sqrt", "pow") and not e.keywords:
            return all(self._literal(a, depth + 1) for a in e.args)
        if isinstance(e, ast.Call) and isinstance(e.func, ast.Attribute) and isinstance(e.func.value, ast.Name) and e.func.value.id == "re" and e.func.attr == "compile":
            return all(self._literal(a, depth + 1) for a in e.args) and all(self._literal(k.value, depth + 1) for k in e.keywords)   # a pre-compiled pattern
        return False

    # ------------------------------------------------------------------ driver
    def run(self):
        self._index()
        for cls, fn, qual in self._functions():
            self._normalize_function(cls, fn, qual)
        # parents for the rewritten tree
        for n in ast.walk(self.tree):
            for c in ast.iter_child_nodes(n):
                if not isinstance(c, (ast.expr_context, ast.operator, ast.unaryop, ast.boolop, ast.cmpop)):      # shared singletons: see Repo.tree
                    c._parent = n
        return self.tree

    def _functions(self):
        for n in self.tree.body:
            if isinstance(n, ast.FunctionDef):
                yield None, n, n.name
            elif isinstance(n, ast.ClassDef):
                for m in n.body:
                    if isinstance(m, ast.FunctionDef):
                        yield n.name, m, n.name + "." + m.name

    def _normalize_function(self, cls, fn, qual):
        for _ in range(self.MAX_ROUNDS):
            changed = self._inline_pass(cls, fn, qual)
            if not changed:
                break
        self._copy_pass(fn)
        self._const_pass(cls, fn)
        self._alias_pass(fn)
        self._unroll_pass(fn)
        self._attrcall_pass(fn)
        self._ifexp_pass(fn)

    # ------------------------------------------------------------------ copies left behind by inlining
    def _copy_pass(self, fn):
        """`A = B_7` at the top level of the function, where B_7 is a name this normaliser made up while inlining a helper (a helper local renamed because the caller
        uses the same name), A is not mentioned anywhere before that statement and B_7 is not assigned after it: the helper's local IS the caller's variable --
        B_7 is renamed to A in the statements before and the copy dropped (`first_step = self._init_clock()` reads as the inlined body assigning first_step)."""
        import re as _re
        changed = True
        while changed:
            changed = False
            for k, st in enumerate(fn.body):
                if not (isinstance(st, ast.Assign) and len(st.targets) == 1 and isinstance(st.targets[0], ast.Name) and isinstance(st.value, ast.Name)):
                    continue
                a, b = st.targets[0].id, st.value.id
                if a == b or not _re.match(r"^.+_\d+$", b) or not b.startswith(a + "_"):
                    continue
                before, after = fn.body[:k], fn.body[k + 1:]
                names_before = {n.id for s_ in before for n in ast.walk(s_) if isinstance(n, ast.Name)} | {x.arg for x in ast.walk(fn.args) if isinstance(x, ast.arg)}
                if a in names_before:
                    continue
                if any(isinstance(n, ast.Name) and n.id == b and isinstance(n.ctx, ast.Store) for s_ in after for n in ast.walk(s_)):
                    continue
                sub = _Subst({}, {b: a})
                fn.body[:k] = [sub.visit(s_) for s_ in before]
                fn.body[k + 1:] = [sub.visit(s_) for s_ in after]
                del fn.body[k]
                changed = True
                break
        ast.fix_missing_locations(fn)

    # ------------------------------------------------------------------ loops over literal tables, setattr / getattr with a literal name
    MAX_UNROLL = 16

    def _unroll_pass(self, fn):
        """`for NAME in (c1, c2, ...): BODY` over a literal tuple / list of constants (or of equally long tuples of constants, with a tuple target) -- the shape a
        block of repeated statements takes after "drive it from a table" -- is written out again: one copy of BODY per entry with the loop variables replaced by
        the entry's constants.  Only when BODY neither rebinds the loop variables nor contains break / continue of this loop, and the loop has no else."""
        norm = self

        def const_row(e, n):
            if n == 0:
                return [e] if isinstance(e, ast.Constant) else None
            if isinstance(e, (ast.Tuple, ast.List)) and len(e.elts) == n and all(isinstance(x, ast.Constant) for x in e.elts):
                return list(e.elts)
            return None

        def own_level(stmts, kinds):
            for st in stmts:
                if isinstance(st, kinds):
                    return True
                if isinstance(st, (ast.For, ast.While, ast.FunctionDef, ast.ClassDef)):
                    continue
                for fld in ("body", "orelse", "finalbody"):
                    blk = getattr(st, fld, None)
                    if isinstance(blk, list) and blk and isinstance(blk[0], ast.stmt) and own_level(blk, kinds):
                        return True
                for h in getattr(st, "handlers", []) or []:
                    if own_level(h.body, kinds):
                        return True
            return False

        def unroll(st):
            if not (isinstance(st, ast.For) and not st.orelse and isinstance(st.iter, (ast.Tuple, ast.List)) and 0 < len(st.iter.elts) <= norm.MAX_UNROLL):
                return None
            if isinstance(st.target, ast.Name):
                names, width = [st.target.id], 0
            elif isinstance(st.target, (ast.Tuple, ast.List)) and all(isinstance(x, ast.Name) for x in st.target.elts):
                names, width = [x.id for x in st.target.elts], len(st.target.elts)
            else:
                return None
            rows = [const_row(e, width) for e in st.iter.elts]
            if any(r is None for r in rows):
                return None
            if own_level(st.body, (ast.Break, ast.Continue)) or set(names) & _stored_names(st.body):
                return None
            # a nested function / lambda / comprehension that captures the loop variable would see the LAST value after the loop: leave such loops alone
            for n in ast.walk(ast.Module(body=st.body, type_ignores=[])):
                if isinstance(n, (ast.Lambda, ast.FunctionDef, ast.GeneratorExp)) and any(isinstance(x, ast.Name) and x.id in names for x in ast.walk(n)):
                    return None
            # after the loop Python leaves the loop variables bound to the last entry: a later read of them (not re-bound by another loop / assignment
            # first) would see that value -- leave such loops alone
            if norm._read_after(fn, st, set(names)):
                return None
            out = []
            for r in rows:
                mapping = {nm: c for nm, c in zip(names, r)}
                for b in copy.deepcopy(st.body):
                    out.append(_Subst(mapping, {}).visit(b))
            _set_lines(out, st.lineno)
            for x in out:
                ast.fix_missing_locations(x)
            return out

        def walk_block(stmts):
            out = []
            for st in stmts:
                for fld in ("body", "orelse", "finalbody"):
                    blk = getattr(st, fld, None)
                    if isinstance(blk, list) and blk and isinstance(blk[0], ast.stmt) and not isinstance(st, (ast.FunctionDef, ast.ClassDef)):
                        setattr(st, fld, walk_block(blk))
                for h in getattr(st, "handlers", []) or []:
                    h.body = walk_block(h.body)
                u = unroll(st)
                if u is not None:
                    out.extend(u)
                else:
                    out.append(st)
            return out
        fn.body = walk_block(fn.body)

    @staticmethod
    def _read_after(fn, loop, names):
        """is one of `names` loaded anywhere in fn outside `loop` other than inside a loop / comprehension that binds it itself?  (conservative)"""
        inside = {id(n) for n in ast.walk(loop)}

        def visit(n, bound):
            if id(n) in inside and n is loop:
                return False
            if isinstance(n, ast.Name) and isinstance(n.ctx, ast.Load) and n.id in names and n.id not in bound:
                return True
            nb = bound
            if isinstance(n, (ast.For, ast.comprehension)):
                nb = bound | {x.id for x in ast.walk(n.target) if isinstance(x, ast.Name)}
            if isinstance(n, (ast.ListComp, ast.SetComp, ast.DictComp, ast.GeneratorExp)):
                for g in n.generators:
                    nb = nb | {x.id for x in ast.walk(g.target) if isinstance(x, ast.Name)}
            for c in ast.iter_child_nodes(n):
                if visit(c, nb):
                    return True
            return False
        return visit(fn, set())

    def _attrcall_pass(self, fn):
        """setattr(obj, 'name', v) as a statement -> obj.name = v ;  getattr(obj, 'name') -> obj.name   (literal, identifier-shaped names only)"""
        local = _stored_names(fn.body) | {a.arg for a in ast.walk(fn) if isinstance(a, ast.arg)}
        if "setattr" in local or "getattr" in local:
            return

        def ident(e):
            return isinstance(e, ast.Constant) and isinstance(e.value, str) and e.value.isidentifier()

        class T(ast.NodeTransformer):
            def visit_Expr(self, n):
                self.generic_visit(n)
                c = n.value
                if isinstance(c, ast.Call) and isinstance(c.func, ast.Name) and c.func.id == "setattr" and len(c.args) == 3 and not c.keywords and ident(c.args[1]):
                    tgt = ast.Attribute(value=c.args[0], attr=c.args[1].value, ctx=ast.Store())
                    return ast.copy_location(ast.Assign(targets=[tgt], value=c.args[2]), n)
                return n

            def visit_Call(self, c):
                self.generic_visit(c)
                if isinstance(c.func, ast.Name) and c.func.id == "getattr" and len(c.args) == 2 and not c.keywords and ident(c.args[1]):
                    return ast.copy_location(ast.Attribute(value=c.args[0], attr=c.args[1].value, ctx=ast.Load()), c)
                return c
        for i, st in enumerate(fn.body):
            fn.body[i] = T().visit(st)
        ast.fix_missing_locations(fn)

    # ------------------------------------------------------------------ conditional expressions
    def _ifexp_pass(self, fn):
        """`T = a if c else b` (conditional expression as the whole value of a statement) reads `if c: T = a else: T = b`:
        one canonical form for the two spellings of a two-way choice."""
        def lower(stmts):
            out = []
            for s in stmts:
                v = getattr(s, "value", None) if isinstance(s, (ast.Assign, ast.AnnAssign, ast.AugAssign, ast.Return)) else None
                if isinstance(v, ast.IfExp):
                    a, b = copy.deepcopy(s), copy.deepcopy(s)
                    a.value, b.value = v.body, v.orelse
                    node = ast.If(test=v.test, body=lower([a]), orelse=lower([b]))
                    ast.copy_location(node, s)
                    out.append(node)
                    continue
                for field in ("body", "orelse", "finalbody"):
                    blk = getattr(s, field, None)
                    if isinstance(blk, list) and blk and isinstance(blk[0], ast.stmt) and not isinstance(s, (ast.FunctionDef, ast.ClassDef, ast.AsyncFunctionDef)):
                        setattr(s, field, lower(blk))
                for h in getattr(s, "handlers", []) or []:
                    h.body = lower(h.body)
                out.append(s)
            return out
        fn.body = lower(fn.body)
        ast.fix_missing_locations(fn)

    # ------------------------------------------------------------------ local aliases of global constants
    def _alias_pass(self, fn):
        """`closed = wntr.network.LinkStatus.Closed` at the top level of a function, `closed` bound nowhere else: uses of the local read the dotted name.
        Only attribute chains rooted in a name the function does not bind (a module or a class) and ending in a capitalised attribute (an enum member, a
        class) are treated so: such a chain has no side effect and the same value at every use."""
        stored = {}
        for n in ast.walk(fn):
            if isinstance(n, ast.Name) and isinstance(n.ctx, (ast.Store, ast.Del)):
                stored[n.id] = stored.get(n.id, 0) + 1
            elif isinstance(n, (ast.Global, ast.Nonlocal)):
                for nm in n.names:
                    stored[nm] = stored.get(nm, 0) + 2
            elif isinstance(n, ast.arg):
                stored[n.arg] = stored.get(n.arg, 0) + 1
        aliases = {}
        for s_ in list(fn.body):
            if isinstance(s_, ast.Assign) and len(s_.targets) == 1 and isinstance(s_.targets[0], ast.Name) and stored.get(s_.targets[0].id) == 1:
                e, chain = s_.value, []
                while isinstance(e, ast.Attribute):
                    chain.append(e.attr)
                    e = e.value
                if isinstance(e, ast.Name) and len(chain) >= 1 and chain[0][:1].isupper() and e.id not in stored and e.id not in ("self", "cls"):
                    aliases[s_.targets[0].id] = (s_, s_.value)
        if not aliases:
            return
        # a use before the binding statement (in source order at top level) would have been an UnboundLocalError: not rewritten in that case
        for nm, (stmt, value) in list(aliases.items()):
            before = fn.body[:fn.body.index(stmt)]
            if any(isinstance(x, ast.Name) and x.id == nm for b in before for x in ast.walk(b)):
                del aliases[nm]
        if not aliases:
            return

        class T(ast.NodeTransformer):
            def visit_Name(self, n):
                if isinstance(n.ctx, ast.Load) and n.id in aliases:
                    return ast.copy_location(copy.deepcopy(aliases[n.id][1]), n)
                return n
        fn.body = [T().visit(s_) for s_ in fn.body if not any(s_ is a_[0] for a_ in aliases.values())]
        for nm in aliases:
            self.log.append("%s: local alias %s of %s substituted" % (fn.name, nm, ast.unparse(aliases[nm][1])))
        ast.fix_missing_locations(fn)

    # ------------------------------------------------------------------ constants
    def _const_pass(self, cls, fn):
        if not self.mod_consts and not self.cls_consts:
            return
        local = _stored_names(fn)
        norm = self

        class T(ast.NodeTransformer):
            def visit_Name(self, n):
                if isinstance(n.ctx, ast.Load) and n.id in norm.mod_consts and n.id not in local:
                    return ast.copy_location(copy.deepcopy(norm.mod_consts[n.id]), n)
                return n

            def visit_Attribute(self, n):
                if isinstance(n.ctx, ast.Load) and isinstance(n.value, ast.Name):
                    owner = n.value.id
                    c = cls if owner in ("self", "cls") else owner
                    if c is not None and (c, n.attr) in norm.cls_consts and (owner in ("self", "cls") or owner not in local):
                        return ast.copy_location(copy.deepcopy(norm.cls_consts[(c, n.attr)]), n)
                self.generic_visit(n)
                return n
        for i, s in enumerate(fn.body):
            fn.body[i] = T().visit(s)
        # constants of constants
        for _ in range(3):
            again = False
            for n in ast.walk(fn):
                if isinstance(n, ast.Name) and isinstance(n.ctx, ast.Load) and n.id in self.mod_consts and n.id not in local:
                    again = True
            if not again:
                break
            for i, s in enumerate(fn.body):
                fn.body[i] = T().visit(s)
        ast.fix_missing_locations(fn)

    # ------------------------------------------------------------------ inlining
    def _resolve(self, call, cls, fn, qual, nested):
        """-> (callee FunctionDef, self-expression or None, callee qualname) or None"""
        f = call.func
        if isinstance(f, ast.Name):
            if f.id in nested:
                return nested[f.id], None, qual + "." + f.id
            if f.id in self.mod_funcs and f.id not in _stored_names(fn):
                return self.mod_funcs[f.id], None, f.id
            return None
        if isinstance(f, ast.Attribute) and isinstance(f.value, ast.Name):
            owner = f.value.id
            if owner in ("self", "cls") and cls is not None:
                m = self.cls_funcs.get(cls, {}).get(f.attr)
                if m is not None:
                    # a staticmethod reached through self / cls takes no receiver
                    return m, (None if self._is_static(m) else f.value), cls + "." + f.attr
            elif owner in self.cls_funcs:
                m = self.cls_funcs[owner].get(f.attr)
                if m is not None and self._is_static(m):
                    return m, None, owner + "." + f.attr
                if m is not None and self._is_classmethod(m):
                    return m, f.value, owner + "." + f.attr
        return None

    @staticmethod
    def _deco_names(m):
        return [d.id if isinstance(d, ast.Name) else (d.attr if isinstance(d, ast.Attribute) else "?") for d in m.decorator_list]

    def _is_static(self, m):
        return "staticmethod" in self._deco_names(m)

    def _is_classmethod(self, m):
        return "classmethod" in self._deco_names(m)

    def _eligible(self, callee, cq):
        if cq in self.known_funcs:
            return False
        if any(d not in ("staticmethod", "classmethod") for d in self._deco_names(callee)):
            return False
        a = callee.args
        if a.vararg or a.kwarg or a.posonlyargs:
            return False
        if _contains(callee.body, (ast.Yield, ast.YieldFrom, ast.Await, ast.Global, ast.Nonlocal)):
            return False
        return True

    def _inline_pass(self, cls, fn, qual):
        nested = {s.name: s for s in fn.body if isinstance(s, ast.FunctionDef)}
        # a nested def is only transparent if it is bound once and not in the inventory
        changed = [False]
        norm = self

        def process_block(stmts):
            out = []
            for s in stmts:
                if isinstance(s, ast.FunctionDef) and (qual + "." + s.name) not in norm.known_funcs and s.name in nested:
                    # keep the def (harmless) -- calls to it are inlined below
                    out.append(s)
                    continue
                pre, s2 = norm._inline_in_stmt(s, cls, fn, qual, nested)
                if pre is not None:
                    changed[0] = True
                    out.extend(pre)
                    if s2 is not None:
                        out.append(s2)
                    continue
                # recurse into compound statements
                for field in ("body", "orelse", "finalbody"):
                    blk = getattr(s, field, None)
                    if isinstance(blk, list) and blk and isinstance(blk[0], ast.stmt):
                        setattr(s, field, process_block(blk))
                for h in getattr(s, "handlers", []) or []:
                    h.body = process_block(h.body)
                out.append(s)
            return out
        fn.body = process_block(fn.body)
        if changed[0]:
            ast.fix_missing_locations(fn)
        return changed[0]

    def _header_exprs(self, s):
        """expressions of a statement evaluated exactly once before/at the statement itself (not its nested blocks)"""
        if isinstance(s, (ast.Expr, ast.Return)):
            return [s.value] if s.value is not None else []
        if isinstance(s, ast.Assign):
            return [s.value]
        if isinstance(s, ast.AnnAssign):
            return [s.value] if s.value is not None else []
        if isinstance(s, ast.AugAssign):
            return [s.value]
        if isinstance(s, ast.If):
            return [s.test]
        if isinstance(s, ast.For):
            return [s.iter]
        if isinstance(s, ast.With):
            return [i.context_expr for i in s.items]
        if isinstance(s, ast.Raise):
            return [x for x in (s.exc, s.cause) if x is not None]
        if isinstance(s, ast.Assert):
            return [s.test]
        return []

    def _find_call(self, expr, cls, fn, qual, nested):
        """first inlinable call in evaluation position (not under lambda / comprehension / conditional operand)"""
        todo = [expr]
        while todo:
            n = todo.pop(0)
            if isinstance(n, (ast.Lambda, ast.ListComp, ast.SetComp, ast.DictComp, ast.GeneratorExp)):
                continue
            if isinstance(n, ast.IfExp):
                todo.append(n.test)
                continue
            if isinstance(n, ast.BoolOp):
                todo.append(n.values[0])
                continue
            if isinstance(n, ast.Call):
                r = self._resolve(n, cls, fn, qual, nested)
                if r is not None and r[0] is not fn and self._eligible(r[0], r[2]):
                    return n, r
            todo.extend(ast.iter_child_nodes(n))
        return None

    def _desugar_comp(self, s, cls, fn, qual, nested):
        """`t = [elt for x in it if c]` whose element calls an inlinable helper -> `t = []; for x in it: if c: t.append(elt)`, so that the
        call reaches an evaluation position where the next pass inlines it (loop vs comprehension around an extracted helper)."""
        if not (isinstance(s, ast.Assign) and len(s.targets) == 1 and isinstance(s.targets[0], ast.Name) and isinstance(s.value, ast.ListComp)):
            return None
        comp = s.value
        if len(comp.generators) != 1 or comp.generators[0].is_async:
            return None
        if self._find_call(comp.elt, cls, fn, qual, nested) is None:
            return None
        tname = s.targets[0].id
        if tname in {n.id for n in ast.walk(comp) if isinstance(n, ast.Name)}:
            return None
        comp = copy.deepcopy(comp)
        g = comp.generators[0]
        # the comprehension variable is private to the comprehension: give it a fresh name if the function uses that name elsewhere
        inside = {id(n) for n in ast.walk(s.value)}
        outside = {n.id for n in ast.walk(fn) if isinstance(n, ast.Name) and id(n) not in inside} | {a.arg for a in ast.walk(fn) if isinstance(a, ast.arg)}
        rename = {}
        for v in sorted(_stored_names([g.target])):
            if v in outside:
                self.counter += 1
                rename[v] = "%s_%d" % (v, self.counter)
        if rename:
            comp = _Subst({}, rename).visit(comp)
            g = comp.generators[0]
        body = [ast.Expr(value=ast.Call(func=ast.Attribute(value=ast.Name(id=tname, ctx=ast.Load()), attr="append", ctx=ast.Load()), args=[comp.elt], keywords=[]))]
        for c in reversed(g.ifs):
            body = [ast.If(test=c, body=body, orelse=[])]
        init = ast.Assign(targets=[ast.Name(id=tname, ctx=ast.Store())], value=ast.List(elts=[], ctx=ast.Load()))
        loop = ast.For(target=g.target, iter=g.iter, body=body, orelse=[])
        out = [ast.copy_location(init, s), ast.copy_location(loop, s)]
        for x in out:
            ast.fix_missing_locations(x)
        return out

    # ------------------------------------------------------------------ generator fusion
    def _gen_eligible(self, callee, cq):
        """a generator helper that can be fused into the loop consuming it: plain parameters, not in the inventory, and every `yield` is a statement of its own
        (its value unused), nested only in for / while / if -- resuming after the yield means going on with the statement that follows it, which is what
        running the consumer's body in its place does (a `continue` of the consumer is contained by a one-round loop around that copy of the body)."""
        if cq in self.known_funcs or self._deco_names(callee):
            return False
        a = callee.args
        if a.vararg or a.kwarg or a.posonlyargs:
            return False
        if _contains(callee.body, (ast.YieldFrom, ast.Await, ast.Global, ast.Nonlocal, ast.Try, ast.With, ast.Return)):
            return False
        yields = [n for n in ast.walk(ast.Module(body=callee.body, type_ignores=[])) if isinstance(n, ast.Yield)]
        if not yields:
            return False
        ok = [0]

        def scan(stmts):
            for k, st in enumerate(stmts):
                if isinstance(st, ast.Expr) and isinstance(st.value, ast.Yield):
                    if st.value.value is None:
                        return False
                    ok[0] += 1
                    continue
                if isinstance(st, (ast.FunctionDef, ast.ClassDef)):
                    return False
                for fld in ("body", "orelse"):
                    blk = getattr(st, fld, None)
                    if isinstance(blk, list) and blk and isinstance(blk[0], ast.stmt):
                        if not isinstance(st, (ast.For, ast.While, ast.If)):
                            return False
                        if not scan(blk):
                            return False
            return True
        return scan(callee.body) and ok[0] == len(yields)

    def _fuse_generator(self, s, cls, fn, qual, nested):
        """`for T in gen(args): BODY` with gen an eligible generator helper of the same module -> gen's body with every `yield E` replaced by `T = E; BODY`."""
        if not (isinstance(s, ast.For) and isinstance(s.iter, ast.Call) and not s.orelse):
            return None
        r = self._resolve(s.iter, cls, fn, qual, nested)
        if r is None or r[0] is fn or not self._gen_eligible(r[0], r[2]):
            return None
        callee, selfexpr, cq = r

        def own_level(stmts, kinds):
            for st in stmts:
                if isinstance(st, kinds):
                    return True
                if isinstance(st, (ast.For, ast.While, ast.FunctionDef, ast.ClassDef)):
                    continue
                for fld in ("body", "orelse", "finalbody"):
                    blk = getattr(st, fld, None)
                    if isinstance(blk, list) and blk and isinstance(blk[0], ast.stmt) and own_level(blk, kinds):
                        return True
                for h in getattr(st, "handlers", []) or []:
                    if own_level(h.body, kinds):
                        return True
            return False
        if own_level(s.body, (ast.Break,)):
            return None                      # `break` ends the consumption of the generator: not expressible by fusion
        # `continue` in the consumer's body means "next value": after fusion that is the next round of the generator's enclosing loop -- or, for a yield that
        # is not inside a loop of the generator, the end of this copy of the body: such a copy is wrapped in a one-round loop so that `continue` leaves it
        wrap_once = own_level(s.body, (ast.Continue,))
        body = copy.deepcopy(callee.body)
        if body and isinstance(body[0], ast.Expr) and isinstance(body[0].value, ast.Constant) and isinstance(body[0].value.value, str):
            body = body[1:]
        try:
            pre, mapping, rename = self._bind_params(s, s.iter, callee, selfexpr, fn, body)
        except NotInlinable as e:
            self.log.append("not fused %s into %s: %s" % (cq, qual, e))
            self.known_funcs.add(cq)
            return None
        sub = _Subst(mapping, rename)
        body = [sub.visit(x) for x in body]

        def replace(stmts, in_loop=False):
            out = []
            for st in stmts:
                if isinstance(st, ast.Expr) and isinstance(st.value, ast.Yield):
                    bind = ast.Assign(targets=[copy.deepcopy(s.target)], value=st.value.value, lineno=s.lineno, col_offset=0)
                    if wrap_once:
                        self.counter += 1
                        once = ast.For(target=ast.Name(id="_once_%d" % self.counter, ctx=ast.Store()), iter=ast.Tuple(elts=[ast.Constant(value=None)], ctx=ast.Load()),
                                       body=[bind] + copy.deepcopy(s.body), orelse=[], lineno=s.lineno, col_offset=0)
                        out.append(once)
                    else:
                        out.append(bind)
                        out.extend(copy.deepcopy(s.body))
                    continue
                for fld in ("body", "orelse"):
                    blk = getattr(st, fld, None)
                    if isinstance(blk, list) and blk and isinstance(blk[0], ast.stmt):
                        setattr(st, fld, replace(blk, in_loop or (isinstance(st, (ast.For, ast.While)) and fld == "body")))
                out.append(st)
            return out
        self.counter += 1
        stmts = pre + replace(body)
        _set_lines(stmts, s.lineno)
        for x in stmts:
            ast.fix_missing_locations(x)
        return stmts

    def _inline_in_stmt(self, s, cls, fn, qual, nested):
        d = self._desugar_comp(s, cls, fn, qual, nested)
        if d is not None:
            return d, None
        d = self._fuse_generator(s, cls, fn, qual, nested)
        if d is not None:
            return d, None
        for expr in self._header_exprs(s):
            found = self._find_call(expr, cls, fn, qual, nested)
            if found is None:
                continue
            call, (callee, selfexpr, cq) = found
            try:
                return self._expand(s, expr, call, callee, selfexpr, fn, cq)
            except NotInlinable as e:
                self.log.append("not inlined %s into %s: %s" % (cq, qual, e))
                # mark so that we do not retry forever
                self.known_funcs.add(cq)
                return None, None
        return None, None

    def _bind_params(self, s, call, callee, selfexpr, fn, body):
        """-> (assignments binding non-trivial arguments, parameter -> argument expression, local renames) for inlining callee's body at statement s"""
        params = [a.arg for a in callee.args.args]
        defaults = callee.args.defaults
        kwonly = [a.arg for a in callee.args.kwonlyargs]
        bind = {}
        pos = list(params)
        if selfexpr is not None and pos:
            bind[pos[0]] = selfexpr
            pos = pos[1:]
        elif selfexpr is None and pos and pos[0] in ("self", "cls") and not self._is_static(callee) and isinstance(call.func, ast.Attribute):
            raise NotInlinable("unbound receiver")
        if any(isinstance(a, ast.Starred) for a in call.args) or any(k.arg is None for k in call.keywords):
            raise NotInlinable("star arguments")
        if len(call.args) > len(pos):
            raise NotInlinable("too many positional arguments")
        for p, a in zip(pos, call.args):
            bind[p] = a
        for k in call.keywords:
            if k.arg not in params and k.arg not in kwonly:
                raise NotInlinable("unknown keyword %s" % k.arg)
            bind[k.arg] = k.value
        for p, d in zip(params[len(params) - len(defaults):], defaults):
            bind.setdefault(p, d)
        for p, d in zip(kwonly, callee.args.kw_defaults):
            if d is not None:
                bind.setdefault(p, d)
        missing = [p for p in params + kwonly if p not in bind]
        if missing:
            raise NotInlinable("unbound parameters %s" % missing)
        stored = _stored_names(body)
        caller_names = _all_names(fn)
        pre = []
        mapping, rename = {}, {}
        for p, a in bind.items():
            if _simple_arg(a) and p not in stored:
                mapping[p] = a
            else:
                newp = p
                while newp in caller_names or newp in rename.values():
                    newp = newp + "_"
                    if len(newp) > len(p) + 3:
                        self.counter += 1
                        newp = "%s_%d" % (p, self.counter)
                rename[p] = newp
                pre.append(ast.Assign(targets=[ast.Name(id=newp, ctx=ast.Store())], value=copy.deepcopy(a), lineno=s.lineno, col_offset=0))
        # callee locals that clash with the caller's names get a fresh name
        for nm in sorted(stored):
            if nm in bind:
                continue
            if nm in caller_names:
                self.counter += 1
                rename[nm] = "%s_%d" % (nm, self.counter)
        return pre, mapping, rename

    def _expand(self, s, expr, call, callee, selfexpr, fn, cq):
        self.counter += 1
        ret = "_ret_%s_%d" % (callee.name.strip("_"), self.counter)
        body = copy.deepcopy(callee.body)
        # drop the docstring
        if body and isinstance(body[0], ast.Expr) and isinstance(body[0].value, ast.Constant) and isinstance(body[0].value.value, str):
            body = body[1:]
        if not body:
            body = [ast.Pass()]
        pre, mapping, rename = self._bind_params(s, call, callee, selfexpr, fn, body)
        if len(body) == 1 and isinstance(body[0], ast.Return) and body[0].value is not None and not pre and not rename:
            # an expression helper (`def is_closed(link): return link.status == Closed`) called with plain arguments: the call IS that expression
            repl = _Subst(mapping, {}).visit(copy.deepcopy(body[0].value))
            _set_lines([repl], s.lineno)
            s2 = _ReplaceNode(call, repl).visit(s)
            ast.fix_missing_locations(s2)
            return [], s2
        new_body, _ = _tailify(body, ret)
        sub = _Subst(mapping, rename)
        new_body = [sub.visit(x) for x in new_body]
        # consume the value: when the call is the whole value of the statement, push the statement into the tail positions
        whole = isinstance(s, (ast.Assign, ast.Return, ast.Expr, ast.AugAssign, ast.AnnAssign)) and getattr(s, "value", None) is call

        def consume(stmts):
            out = []
            for x in stmts:
                if isinstance(x, ast.Assign) and len(x.targets) == 1 and isinstance(x.targets[0], ast.Name) and x.targets[0].id == ret:
                    if isinstance(s, ast.Expr):
                        if not isinstance(x.value, ast.Constant):
                            out.append(ast.Expr(value=x.value, lineno=s.lineno, col_offset=0))
                        continue
                    c = copy.deepcopy(s) if not isinstance(s, ast.Return) else ast.Return(value=None, lineno=s.lineno, col_offset=0)
                    c.value = x.value
                    out.append(c)
                elif isinstance(x, ast.If):
                    x.body = consume(x.body) or [ast.Pass()]
                    x.orelse = consume(x.orelse)
                    out.append(x)
                else:
                    out.append(x)
            return out
        if whole:
            stmts = pre + consume(new_body)
            _set_lines(stmts, s.lineno)
            return stmts, None
        stmts = pre + new_body
        _set_lines(stmts, s.lineno)
        repl = ast.Name(id=ret, ctx=ast.Load())
        s2 = _ReplaceNode(call, repl).visit(s)
        return stmts, s2


def normalize(tree, rel):
    known = inventory().get(rel)
    if known is None:
        # a module the inventory has never seen: everything in it is new; do not rewrite (nothing anchors there)
        return tree, []
    n = ModuleNormalizer(tree, known)
    n.run()
    return tree, n.log
