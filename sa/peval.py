"""E6 -- partial evaluation / finite region evaluation of small pure functions.

A syntax-directed abstract interpreter over the statement kinds such functions
use (assign, if/elif/else, return).  Numbers are folded, the distinguished input
is kept as a linear form k*x + c (class Lin), enum members are abstract objects
with known attributes.  Anything outside the supported fragment raises Unknown,
which callers turn into an ANALYSIS-ERROR: the evaluator never guesses.
Nothing from the repository is imported or executed.
"""
import ast
import math

from .src import ExtractError, unparse, dotted


class Unknown(ExtractError):
    pass


class Lin(object):
    """k*x + c over one symbolic input x."""
    __slots__ = ("k", "c")

    def __init__(self, k=1.0, c=0.0):
        self.k = k
        self.c = c

    def __repr__(self):
        return "Lin(%r*x%+r)" % (self.k, self.c)


class Obj(object):
    """abstract object with a name and known attributes (enum member, option object...)."""

    def __init__(self, name, attrs=None, cls=None):
        self.name = name
        self.attrs = dict(attrs or {})
        self.cls = cls

    def __repr__(self):
        return "<%s>" % self.name

    def __eq__(self, other):
        return isinstance(other, Obj) and other.name == self.name

    def __hash__(self):
        return hash(self.name)


class Returned(Exception):
    def __init__(self, value):
        self.value = value


class Raised(Exception):
    def __init__(self, node):
        self.node = node


def _num(v):
    return isinstance(v, (int, float)) and not isinstance(v, bool)


class Evaluator(object):
    def __init__(self, env=None, class_attr=None, call=None, attr=None):
        self.env = dict(env or {})
        self.class_attr = class_attr     # f(dotted) -> value or raises Unknown
        self.call_hook = call            # f(name, args, node, ev) -> value or NotImplemented
        self.attr_hook = attr            # f(obj, attr) -> value or NotImplemented
        self.trace = []

    # ------------------------------------------------------------ expressions
    def ev(self, n):
        m = getattr(self, "e_" + type(n).__name__, None)
        if m is None:
            raise Unknown("unsupported expression %s: %s" % (type(n).__name__, unparse(n)))
        return m(n)

    def e_Constant(self, n):
        return n.value

    def e_Name(self, n):
        if n.id in self.env:
            return self.env[n.id]
        if n.id in ("True", "False", "None"):
            return {"True": True, "False": False, "None": None}[n.id]
        if self.class_attr:
            return self.class_attr(n.id)
        raise Unknown("unbound name %s" % n.id)

    def e_Attribute(self, n):
        d = dotted(n)
        if d and d.split(".")[0] not in self.env and self.class_attr:
            try:
                return self.class_attr(d)
            except Unknown:
                pass
        base = self.ev(n.value)
        if self.attr_hook:
            r = self.attr_hook(base, n.attr)
            if r is not NotImplemented:
                return r
        if isinstance(base, Obj) and n.attr in base.attrs:
            return base.attrs[n.attr]
        raise Unknown("unknown attribute %s of %r" % (n.attr, base))

    def e_List(self, n):
        return [self.ev(e) for e in n.elts]

    e_Tuple = e_List

    def e_Set(self, n):
        return [self.ev(e) for e in n.elts]

    def e_Dict(self, n):
        if any(k is None for k in n.keys):
            raise Unknown("dict unpacking")
        out = {}
        for k, v in zip(n.keys, n.values):
            key = self.ev(k)
            try:
                hash(key)
            except TypeError:
                raise Unknown("unhashable dict key %r" % (key,))
            out[key] = self.ev(v)
        return out

    def e_Subscript(self, n):
        """x[i] / x[i:j] of a concrete sequence, string or dict value with a concrete index (e.g. the first coefficient of a call's result tuple)"""
        base = self.ev(n.value)
        if isinstance(n.slice, ast.Slice):
            key = slice(*[None if p is None else self.ev(p) for p in (n.slice.lower, n.slice.upper, n.slice.step)])
            concrete = all(p is None or (isinstance(p, int) and not isinstance(p, bool)) for p in (key.start, key.stop, key.step))
        else:
            key = self.ev(n.slice)
            concrete = (isinstance(key, (int, str)) and not isinstance(key, bool)) or (isinstance(base, dict) and isinstance(key, Obj))     # a table keyed by enum members
        if not concrete or not isinstance(base, (list, tuple, str, dict)) or (isinstance(base, dict) and isinstance(key, slice)):
            raise Unknown("subscript of a value that is not a concrete container, or by a non-concrete index: %s" % unparse(n))
        try:
            return base[key]
        except (IndexError, KeyError, TypeError):
            raise Unknown("subscript out of range / missing key: %s" % unparse(n))

    def e_UnaryOp(self, n):
        v = self.ev(n.operand)
        if isinstance(n.op, ast.Not):
            return not self.truth(v)
        if isinstance(n.op, ast.USub):
            if isinstance(v, Lin):
                return Lin(-v.k, -v.c)
            return -v
        if isinstance(n.op, ast.UAdd):
            return v
        raise Unknown("unary op")

    def e_BinOp(self, n):
        return self.binop(n.op, self.ev(n.left), self.ev(n.right), n)

    def binop(self, op, a, b, n):
        if isinstance(a, Lin) or isinstance(b, Lin):
            if isinstance(op, ast.Mult):
                if isinstance(a, Lin) and _num(b):
                    return Lin(a.k * b, a.c * b)
                if isinstance(b, Lin) and _num(a):
                    return Lin(b.k * a, b.c * a)
            if isinstance(op, ast.Div) and isinstance(a, Lin) and _num(b):
                return Lin(a.k / b, a.c / b)
            if isinstance(op, (ast.Add, ast.Sub)):
                s = 1 if isinstance(op, ast.Add) else -1
                if isinstance(a, Lin) and _num(b):
                    return Lin(a.k, a.c + s * b)
                if isinstance(b, Lin) and _num(a):
                    return Lin(s * b.k, a + s * b.c)
                if isinstance(a, Lin) and isinstance(b, Lin):
                    return Lin(a.k + s * b.k, a.c + s * b.c)
            raise Unknown("non-linear use of the input: %s" % unparse(n))
        if not (_num(a) and _num(b)):
            if isinstance(op, ast.Add) and isinstance(a, str) and isinstance(b, str):
                return a + b
            if isinstance(op, ast.Mod) and isinstance(a, str):
                return a
            raise Unknown("arithmetic on non-numbers: %s" % unparse(n))
        if isinstance(op, ast.Add):
            return a + b
        if isinstance(op, ast.Sub):
            return a - b
        if isinstance(op, ast.Mult):
            return a * b
        if isinstance(op, ast.Div):
            return a / b
        if isinstance(op, ast.Pow):
            return a ** b
        if isinstance(op, ast.FloorDiv):
            return a // b
        if isinstance(op, ast.Mod):
            return a % b
        raise Unknown("binary op %s" % type(op).__name__)

    def e_BoolOp(self, n):
        if isinstance(n.op, ast.And):
            v = True
            for x in n.values:
                v = self.ev(x)
                if not self.truth(v):
                    return v
            return v
        v = False
        for x in n.values:
            v = self.ev(x)
            if self.truth(v):
                return v
        return v

    def e_IfExp(self, n):
        return self.ev(n.body) if self.truth(self.ev(n.test)) else self.ev(n.orelse)

    def truth(self, v):
        if isinstance(v, Lin):
            raise Unknown("truth value of the symbolic input")
        if isinstance(v, Obj):
            if "__bool__" in v.attrs:
                return v.attrs["__bool__"]
            return True
        return bool(v)

    def e_Compare(self, n):
        left = self.ev(n.left)
        res = True
        for op, rn in zip(n.ops, n.comparators):
            right = self.ev(rn)
            if isinstance(left, Lin) or isinstance(right, Lin):
                raise Unknown("comparison on the symbolic input: %s" % unparse(n))
            if isinstance(op, (ast.Eq, ast.Is)):
                r = left == right if not (left is None or right is None) else left is right
            elif isinstance(op, (ast.NotEq, ast.IsNot)):
                r = not (left == right if not (left is None or right is None) else left is right)
            elif isinstance(op, ast.In):
                r = any(left == x for x in right)
            elif isinstance(op, ast.NotIn):
                r = not any(left == x for x in right)
            elif isinstance(op, ast.Lt):
                r = left < right
            elif isinstance(op, ast.LtE):
                r = left <= right
            elif isinstance(op, ast.Gt):
                r = left > right
            elif isinstance(op, ast.GtE):
                r = left >= right
            else:
                raise Unknown("compare op")
            res = res and r
            left = right
        return res

    def e_Call(self, n):
        name = dotted(n.func) or ("?." + n.func.attr if isinstance(n.func, ast.Attribute) else "?")
        if self.call_hook:
            r = self.call_hook(name, n, self)
            if r is not NotImplemented:
                return r
        args = [self.ev(a) for a in n.args]
        if name in ("np.sqrt", "math.sqrt", "numpy.sqrt") and _num(args[0]):
            return math.sqrt(args[0])
        if name in ("np.power", "math.pow", "numpy.power", "pow") and all(_num(a) for a in args):
            return args[0] ** args[1]
        if name in ("float", "int") and len(args) == 1 and _num(args[0]):
            return float(args[0]) if name == "float" else int(args[0])
        if name in ("float",) and isinstance(args[0], Lin):
            return args[0]
        if name == "abs" and _num(args[0]):
            return abs(args[0])
        if name in ("round", "np.round", "numpy.round") and args and all(_num(a) for a in args) and not n.keywords:
            return round(*args)
        if name in ("math.floor", "np.floor", "numpy.floor", "math.ceil", "np.ceil", "numpy.ceil", "math.trunc") and len(args) == 1 and _num(args[0]):
            return {"floor": math.floor, "ceil": math.ceil, "trunc": math.trunc}[name.split(".")[-1]](args[0])
        if name in ("min", "max") and args and all(_num(a) for a in args) and not n.keywords:
            return (min if name == "min" else max)(args)
        if name == "divmod" and len(args) == 2 and all(_num(a) for a in args):
            return divmod(*args)
        raise Unknown("call %s not modelled" % unparse(n))

    # -------------------------------------------------------------- statements
    def run(self, stmts):
        """execute; returns the returned value (None if falling off the end)."""
        try:
            self.block(stmts)
        except Returned as r:
            return r.value
        return None

    def block(self, stmts):
        for s in stmts:
            self.stmt(s)

    def stmt(self, s):
        if isinstance(s, ast.Expr):
            if isinstance(s.value, ast.Constant):
                return
            self.ev(s.value)
            return
        if isinstance(s, ast.Pass):
            return
        if isinstance(s, ast.Assign):
            v = self.ev(s.value)
            for t in s.targets:
                self.assign(t, v)
            return
        if isinstance(s, ast.AugAssign):
            self.assign(s.target, self.binop(s.op, self.ev(s.target), self.ev(s.value), s))
            return
        if isinstance(s, ast.If):
            t = self.truth(self.ev(s.test))
            self.trace.append((s.lineno, bool(t)))
            self.block(s.body if t else s.orelse)
            return
        if isinstance(s, ast.Return):
            raise Returned(self.ev(s.value) if s.value is not None else None)
        if isinstance(s, ast.Raise):
            raise Raised(s)
        raise Unknown("unsupported statement %s at line %s" % (type(s).__name__, getattr(s, "lineno", "?")))

    def assign(self, t, v):
        if isinstance(t, ast.Name):
            self.env[t.id] = v
            return
        if isinstance(t, (ast.Tuple, ast.List)) and isinstance(v, (list, tuple)) and len(v) == len(t.elts):
            for e, x in zip(t.elts, v):
                self.assign(e, x)
            return
        if isinstance(t, ast.Attribute):
            base = self.ev(t.value)
            if isinstance(base, Obj):
                base.attrs[t.attr] = v
                return
        raise Unknown("unsupported assignment target %s" % unparse(t))
