"""CLI:  python -m sa <Cxx> [--tier quick|thorough] [--replay file]

exit 0 property held on everything analysed (KNOWN-FINDING lines possible)
exit 1 VIOLATION property=<id> replay=<path>
exit 2 ANALYSIS-ERROR (anchor vanished, extraction failed, instance floor, witness silent)
"""
import argparse
import importlib
import json
import os
import sys
import traceback

from .report import Check
from .src import Repo, AnchorError


def load(pid):
    return importlib.import_module("sa.props.%s" % pid.lower())


def run_rules(mod, repo, chk, thorough=False):
    try:
        mod.run(repo, chk)
        if thorough and hasattr(mod, "run_thorough"):
            mod.run_thorough(repo, chk)
    except AnchorError as e:
        chk.error("%s: %s" % (type(e).__name__, e))
    except RecursionError as e:
        chk.error("RecursionError: %s" % e)
    except Exception as e:  # a crash of the analyser is never a verdict
        tb = traceback.format_exc().strip().splitlines()
        chk.error("analyser crashed: %s: %s | %s" % (type(e).__name__, e, " / ".join(tb[-6:])))


def _witness_job(args):
    pid, w, base_keys = args
    mod = load(pid)
    repo = Repo()
    try:
        src = repo.source(w["file"])
    except AnchorError:
        return (w["name"], "skipped", "file missing")
    if src.count(w["old"]) != 1:
        return (w["name"], "skipped", "pattern occurs %d times" % src.count(w["old"]))
    msrc = src.replace(w["old"], w["new"])
    for o2, n2 in w.get("also", ()):      # further edits of the same file (e.g. the mirror-image line of a sibling)
        if msrc.count(o2) != 1:
            return (w["name"], "skipped", "secondary pattern occurs %d times" % msrc.count(o2))
        msrc = msrc.replace(o2, n2)
    mrepo = repo.with_override(w["file"], msrc)
    c = Check(pid, "thorough", quiet=True)
    run_rules(mod, mrepo, c, thorough=False)
    newv = [k for k in c.violation_keys() if k not in base_keys]
    want = w.get("rule")
    hit = [k for k in newv if (want is None or k[0].startswith(want))]
    if w.get("silent"):
        # behaviour-preserving variant: must NOT produce a new violation or error
        if newv or c.errors:
            return (w["name"], "noisy", "preserving variant raised %s %s" % (newv[:2], c.errors[:1]))
        return (w["name"], "quiet-ok", "")
    if hit:
        return (w["name"], "fired", "%s @ %s" % hit[0])
    if c.errors:
        return (w["name"], "error", c.errors[0])
    return (w["name"], "silent", "new violations: %s" % (newv[:3],))


def run_witnesses(pid, mod, chk):
    ws = list(getattr(mod, "WITNESSES", []))
    if not ws:
        return
    base = chk.violation_keys()
    jobs = [(pid, w, base) for w in ws]
    try:
        import multiprocessing as mp
        with mp.Pool(min(16, len(jobs))) as pool:
            res = pool.map(_witness_job, jobs)
    except Exception:
        res = [_witness_job(j) for j in jobs]
    fired = [r for r in res if r[1] in ("fired", "quiet-ok")]
    skipped = [r for r in res if r[1] == "skipped"]
    chk.extra["witnesses_total"] = len(ws)
    chk.extra["witnesses_fired"] = len(fired)
    chk.extra["witnesses_skipped"] = [list(r) for r in skipped]
    chk.extra["witness_results"] = [list(r) for r in res]
    for r in res:
        if r[1] in ("silent", "error", "noisy"):
            chk.error("mutation witness %r: %s (%s)" % (r[0], r[1], r[2]))
    if skipped and not chk.violations():
        # on a tree where the property holds every witness must be applicable
        for r in skipped:
            chk.note("witness %s not applicable: %s" % (r[0], r[2]))
            print("WITNESS-SKIPPED %s %s: %s" % (pid, r[0], r[2]))


def main(argv=None):
    ap = argparse.ArgumentParser(prog="sa")
    ap.add_argument("pid")
    ap.add_argument("--tier", default=os.environ.get("VERIF_TIER", "quick"), choices=["quick", "thorough"])
    ap.add_argument("--replay")
    a = ap.parse_args(argv)
    pid = a.pid.upper()
    try:
        mod = load(pid)
    except ImportError as e:
        print("ANALYSIS-ERROR property=%s no rule module: %s" % (pid, e))
        return 2
    repo = Repo()
    chk = Check(pid, a.tier)
    thorough = a.tier == "thorough"
    run_rules(mod, repo, chk, thorough=thorough)
    if thorough:
        run_witnesses(pid, mod, chk)
    chk.extra["repo_root"] = repo.root
    chk.extra["files_consulted"] = sorted(repo.consulted)
    if a.replay:
        with open(a.replay) as f:
            rp = json.load(f)
        key = (rp["rule"], rp["construct"])
        still = key in chk.violation_keys()
        print("REPLAY %s rule=%s construct=%r -> %s" % (pid, key[0], key[1], "still violated" if still else "no longer violated"))
        if still:
            print("VIOLATION property=%s replay=%s" % (pid, a.replay))
        return 1 if still else (2 if chk.errors else 0)
    for a_ in getattr(mod, "ASSUMPTIONS", []):
        chk.assume(a_)
    return chk.finish(mod.EXPLANATION, mod.RULE_TEXT)


if __name__ == "__main__":
    sys.exit(main())
