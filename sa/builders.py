"""Shared extraction for wntr/sim/models/{constraint,param,constants}.py builders (used by C01, C02, C07, C08, C09)."""
import re

import sympy as sp

from .src import AnchorError, ExtractError
from .symx import SymExec, Opaque, CondExpr, Constraint, Ineq, rat

CONSTRAINT = "wntr/sim/models/constraint.py"
PARAM = "wntr/sim/models/param.py"
CONSTANTS = "wntr/sim/models/constants.py"
VAR = "wntr/sim/models/var.py"
SPLINE = "wntr/utils/polynomial_interpolation.py"

POSITIVE = {"hw_resistance", "hw_exp", "hw_minor_exp", "hw_k", "hw_m", "hw_q1", "hw_q2", "pdd_slope", "leak_slope", "pdd_smoothing_delta",
            "leak_delta", "leak_area", "leak_coeff", "tcv_resistance", "pump_power", "pump_q2", "A", "B", "C", "diameter", "length", "roughness",
            "leak_discharge_coeff", "pressure_exponent", "expected_demand"}
NONNEG = {"minor_loss", "pump_q1", "setting"}
NEGATIVE = {"pump_slope"}


def canon_symbol(name):
    """canonical symbol for a leaf name with its declared sign assumption."""
    if name in POSITIVE:
        return sp.Symbol(name, positive=True)
    if name in NONNEG:
        return sp.Symbol(name, nonnegative=True)
    if name in NEGATIVE:
        return sp.Symbol(name, negative=True)
    return sp.Symbol(name, real=True)


Q = canon_symbol("q")
HS = canon_symbol("Hs")
HE = canon_symbol("He")

_LEAF = re.compile(r"^m\.(\w+)(?:\[(.*)\])?$")


def classify(symname):
    """-> (canonical name, info) for an extracted leaf symbol name."""
    m = _LEAF.match(symname)
    if not m:
        mm = re.match(r"^.*get_head_curve_coefficients\(\)\[(\d)\]$", symname)
        if mm:
            return "ABC"[int(mm.group(1))], {"kind": "pump-coeff"}
        mm = re.match(r"^(?:wn\.get_(?:link|node)\(\w+\)|link|node)\.(\w+)$", symname)
        if mm:
            return mm.group(1), {"kind": "attr", "src": "element"}
        mm = re.match(r"^wn\.options\.(\w+)\.(\w+)$", symname)
        if mm:
            return mm.group(2), {"kind": "attr", "src": "options." + mm.group(1)}
        return None, {}
    name, key = m.group(1), m.group(2)
    if name == "flow" and key is not None and not key.endswith("node_name"):
        return "q", {"dict": name, "key": key}
    if name in ("head", "source_head") and key is not None:
        if key.endswith("start_node_name"):
            return "Hs", {"dict": name, "key": key}
        if key.endswith("end_node_name"):
            return "He", {"dict": name, "key": key}
        return "h", {"dict": name, "key": key}
    if name == "elevation" and key is not None:
        if key.endswith("start_node_name"):
            return "elev_start", {"dict": name, "key": key}
        if key.endswith("end_node_name"):
            return "elev_end", {"dict": name, "key": key}
        return "elev", {"dict": name, "key": key}
    return name, {"dict": name, "key": key}


def canon(expr):
    """rename extracted leaves to canonical, assumption-carrying symbols. returns (expr, leafinfo)."""
    expr = sp.sympify(expr)
    info = {}
    sub = {}
    for s in expr.free_symbols:
        cn, i = classify(s.name)
        if cn is None:
            cn = s.name
        info.setdefault(cn, []).append((s.name, i))
        sub[s] = canon_symbol(cn)
    return expr.xreplace(sub), info


def std_test_hook(txt, node, st):
    if txt.startswith("hasattr("):
        return False
    if txt == "index_over is None":
        return True
    if re.match(r"^\w+ in m\.\w+$", txt):
        return False
    # the same question asked through dict.get: on a first build the model dictionary has no entry for the key yet
    if re.match(r"^m\.\w+\.get\(\w+(, None)?\) is None$", txt):
        return True
    if re.match(r"^m\.\w+\.get\(\w+(, None)?\) is not None$", txt):
        return False
    return None


def inline_table(repo):
    return {"get_pump_poly_coefficients": repo.func(CONSTRAINT, "get_pump_poly_coefficients"),
            "get_pump_line_params": repo.func(CONSTRAINT, "get_pump_line_params"),
            "cubic_spline": repo.func(SPLINE, "cubic_spline")}


class Path(object):
    def __init__(self, st):
        self.st = st
        self.conds = st.conds
        self.label = st.label()

    def has(self, frag, val=None):
        for t, v in self.conds:
            if frag in t and (val is None or v == val):
                return True
        return False

    def stores(self, prefix):
        return [(e[1], e[2], e[3]) for e in self.st.events if e[0] == "store" and e[1].startswith(prefix)]

    def updater_pairs(self):
        """[(attr, callback_text, object_text)] of updater.add(obj, attr, callback) calls on this path."""
        out = []
        for e in self.st.events:
            if e[0] == "call" and e[1].startswith("updater.add("):
                args = e[2][1]
                if len(args) >= 3 and isinstance(args[1], str):
                    cb = args[2].text if isinstance(args[2], Opaque) else str(args[2])
                    ob = args[0].text if isinstance(args[0], Opaque) else str(args[0])
                    out.append((args[1], cb, ob))
        return out

    def updater_attrs(self):
        out = []
        for e in self.st.events:
            if e[0] == "call" and e[1].startswith("updater.add("):
                args = e[2][1]
                if len(args) >= 2 and isinstance(args[1], str):
                    out.append(args[1])
        return out


def run_builder(repo, rel, qual, test_hook=std_test_hook, call_hook=None):
    fn = repo.func(rel, qual)
    ex = SymExec(inline=inline_table(repo), test_hook=test_hook, call_hook=call_hook)
    outs = ex.run(fn)
    if not outs:
        raise ExtractError("%s: no paths" % qual)
    return fn, [Path(o) for o in outs], ex


def constants(repo):
    """values assigned to m.<name> by the *_constants functions, as exact sympy numbers."""
    out = {}
    tree = repo.tree(CONSTANTS)
    import ast
    for n in tree.body:
        if isinstance(n, ast.FunctionDef) and n.name.endswith("_constants"):
            n._rel = CONSTANTS
            n._qual = n.name
            env = {}

            def attr_hook(base, attr, st, env=env):
                if isinstance(base, Opaque) and base.text == "m" and attr in env:
                    return env[attr]
                return NotImplemented
            ex = SymExec(inline={"cubic_spline": repo.func(SPLINE, "cubic_spline")}, attr_hook=attr_hook)
            # stores to m.<x> must be visible to later reads: run statement by statement
            from .symx import State
            st = State({"m": Opaque("m")})
            for s in n.body:
                res = ex.stmt(s, st)
                st = res[0]
                for e in st.events:
                    if e[0] == "store" and e[1].startswith("m."):
                        v = e[2]
                        env[e[1][2:]] = v
            for k, v in env.items():
                out[k] = (sp.sympify(rat(v)) if isinstance(v, (int, float)) else v, n.name)
    return out


def const_subs(consts):
    return {canon_symbol(k): v[0] for k, v in consts.items() if isinstance(v[0], sp.Basic)}


def closed_like(p):
    return p.has("LinkStatus.Closed", True) and p.has("_is_isolated")


def check_updaters(chk, rule, fn, bname, paths, required, loc_):
    """on EVERY path, each required attribute is registered with THIS builder's own update callback on the loop's element."""
    cls = bname.split(".")[0]
    own = {cls + ".update"}
    # inside a classmethod `cls` is the class itself: cls.update is the same callback
    if getattr(fn, "args", None) is not None and fn.args.args and fn.args.args[0].arg == "cls" \
            and any(getattr(d, "id", None) == "classmethod" for d in getattr(fn, "decorator_list", [])):
        own.add("cls.update")
    ok_all = True
    for attr in sorted(required):
        missing = []
        wrong = []
        for p in paths:
            if p.st.raised:
                continue
            pairs = [x for x in p.updater_pairs() if x[0] == attr]
            if not pairs:
                missing.append(p.label[-60:])
            for a, cb, ob in pairs:
                if cb not in own:
                    wrong.append(cb)
        good = not missing and not wrong
        ok_all = ok_all and good
        chk.expect(good, rule, "%s re-builds its own entry when %s changes" % (cls, attr), loc_,
                   "updater.add(<element>, %r, %s.update) must be reached on every path: a different key never matches the change tracker's attribute name, "
                   "a different callback rebuilds some other dictionary" % (attr, cls),
                   expected="%s.update registered for %r" % (cls, attr), found="missing on %s; callbacks %s" % (missing[:2], sorted(set(wrong))))
    # no registration under an attribute name that nothing reports (private spelling of a public attribute)
    for p in paths:
        for a, cb, ob in p.updater_pairs():
            if a.startswith("_") and a not in ("_is_isolated",):
                chk.bad(rule, "%s registers for the private attribute %s" % (cls, a), loc_,
                        "control actions report the public attribute name to the change tracker; a private name is never notified", found=a)
                ok_all = False
    return ok_all


def check_loop_independence(repo, chk, rule, targets, what):
    """Side condition of the one-symbolic-iteration extraction (run_builder interprets the element loop of a builder once, for a symbolic element):
    in every outermost `for` loop of each target function no local is read that was assigned in the SAME iteration on some paths and not on others
    (sa/loopcarry.py).  Such a read makes the entry built for one element depend on what an earlier element of the loop left behind -- the entry
    is then not a function of its own element, which no single-iteration formula can show.  Accumulators / counters (read before any assignment of
    the iteration on every path) are outside the rule; they are visible to the formula extraction itself."""
    import ast
    from . import loopcarry as lc
    from .src import loc
    nloops = 0
    for rel, qual in targets:
        fn = repo.func(rel, qual)
        chk.fn(fn)
        inner = set()
        loops = lc.loops_of(fn)
        for lp in loops:
            for sub in ast.walk(lp):
                if sub is not lp and isinstance(sub, (ast.For, ast.While)):
                    inner.add(id(sub))
        for lp in loops:
            if id(lp) in inner or not isinstance(lp, ast.For):
                continue
            nloops += 1
            try:
                mixed, carried, names = lc.analyse_loop(lp)
            except NotImplementedError as e:
                raise ExtractError("%s: loop at line %d: %s" % (qual, lp.lineno, e))
            tgt = ast.unparse(lp.target)
            chk.expect(not mixed, rule, "%s: what is built for one %s does not depend on the other elements of the loop (for %s in %s)" % (qual, what, tgt, ast.unparse(lp.iter)[:60]),
                       loc(fn), "every local read in the loop body is either assigned earlier in the same iteration on every path, or on none (a deliberate carry); "
                       "a local assigned on some paths only keeps, for the other elements, the value an earlier element left behind",
                       expected="no partially assigned local is read", found=["%s read at line %d" % (nm, n.lineno) for nm, n in mixed[:6]] or None)
    return nloops
