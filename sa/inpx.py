"""E5 (INP part) -- extraction of unit-conversion sites of the EPANET INP reader / writer / binary reader.

Each to_si / from_si call becomes a Conv value that flows through the abstract interpreter (dict entries, format
arguments, add_* arguments, attribute stores), so that for every path we know which model attribute a converted value
comes from (writer) or lands in (reader), in which file column, under which discriminator.
"""
import ast
import re
import string

import sympy as sp

from .src import AnchorError, ExtractError, unparse, dotted, walk, calls, const
from .symx import SymExec, Opaque, State

IO = "wntr/epanet/io.py"
UTIL = "wntr/epanet/util.py"
MODEL = "wntr/network/model.py"


class Conv(object):
    """the result of to_si/from_si(units, value, param, **flags)."""

    def __init__(self, direction, value, param, flags, lineno):
        self.direction, self.value, self.param, self.flags, self.lineno = direction, value, param, flags, lineno

    def __repr__(self):
        f = "".join(", %s=%s" % kv for kv in sorted(self.flags.items()))
        return "%s(%s, %s%s)" % (self.direction, self.vtext(), self.param, f)

    def vtext(self):
        v = self.value
        return v.text if isinstance(v, Opaque) else str(v)

    def column(self):
        """index i if the converted value is current[i] / words[i] / values[i]."""
        v = self.value
        if isinstance(v, Opaque) and v.base is not None and isinstance(v.key, int) and (v.base.text in ("current", "words", "data") or v.base.text.endswith("for i in current]")):
            return v.key
        return None

    def attr(self):
        """last attribute name of the converted model value (writer side)."""
        t = self.vtext()
        m = re.search(r"([A-Za-z_][A-Za-z_0-9]*)$", t)
        return m.group(1) if m and "." in t or (m and not t.endswith("]")) else (t if m else None)


def norm_flag(v):
    t = v.text if isinstance(v, Opaque) else str(v)
    t = t.replace("self.wn.", "wn.").replace("self.", "")
    return t


def make_hook(extra=None):
    def hook(name, node, args, kwargs, st, ex, recv):
        if extra:
            r = extra(name, node, args, kwargs, st, ex, recv)
            if r is not NotImplemented:
                return r
        if name in ("to_si", "from_si") and len(args) >= 3:
            flags = {k: norm_flag(v) for k, v in kwargs.items()}
            pos = ["mass_units", "pressure_units", "darcy_weisbach", "reaction_order"]
            for k, v in zip(pos, args[3:]):
                flags[k] = norm_flag(v)
            flags = {k: v for k, v in flags.items() if v not in ("None", "False")}
            ptxt = args[2].text if isinstance(args[2], Opaque) else str(args[2])
            return Conv(name, args[1], ptxt, flags, getattr(node, "lineno", 0))
        if name in ("str", "float") and len(args) == 1 and isinstance(args[0], Conv):
            return args[0]
        if name == "float" and len(args) == 1 and isinstance(args[0], Opaque):
            return args[0]
        if name == "int" and len(args) == 1 and isinstance(args[0], (Opaque, Conv)):
            return args[0]
        meth = node.func.attr if isinstance(node.func, ast.Attribute) else None
        if meth == "format":
            fmt = recv if isinstance(recv, str) else (recv.text if isinstance(recv, Opaque) else (name.rsplit(".", 1)[0] if name and "." in name else None))
            kw = dict(kwargs)
            for k in node.keywords:
                if k.arg is None:
                    d = ex.ev(k.value, st)
                    if isinstance(d, dict):
                        kw.update(d)
            st.events.append(("format", fmt, (list(args), kw), getattr(node, "lineno", 0), tuple(l[1] for l in st.loops)))
            return Opaque("<formatted>")
        if meth == "upper" and isinstance(recv, Opaque) and not args:
            return recv
        if meth == "upper" and isinstance(recv, str):
            return recv.upper()
        if meth == "lower" and isinstance(recv, str):
            return recv.lower()
        if meth == "lower" and isinstance(recv, Opaque) and not args:
            return Opaque(recv.text + ".lower()")
        if meth == "encode" and not isinstance(recv, (dict, list)):
            return recv
        return NotImplemented
    return hook


def placeholders(fmt):
    out = []
    auto = 0
    for lit, field, spec, conv in string.Formatter().parse(fmt):
        if field is None:
            continue
        if field == "":
            out.append(auto)
            auto += 1
        elif field.isdigit():
            out.append(int(field))
        else:
            out.append(field)
    return out


def module_string(repo, name):
    try:
        v = repo.module_assign(IO, name)
    except AnchorError:
        return None
    return const(v) if isinstance(const(v), str) else None


def discriminators(conds):
    """-> (clauses, neg): one clause (set of alternative upper-case tokens) per TRUE condition that compares with quoted keywords
    (valve / curve / source type, section keyword); neg = tokens of the FALSE conditions."""
    clauses = []
    neg = set()
    for t, v in conds:
        if t.startswith("len(") or "isinstance(" in t or " is None" in t or " is not None" in t:
            continue
        toks = {x.upper() for x in re.findall(r"'([A-Za-z][A-Za-z0-9_\-]+)'", t)}
        if not toks:
            continue
        if " and " in t:
            # conjunction of keyword tests: one clause per conjunct
            for part in t.split(" and "):
                pt = {x.upper() for x in re.findall(r"'([A-Za-z][A-Za-z0-9_\-]+)'", part)}
                if pt and v:
                    clauses.append(frozenset(pt))
            if not v:
                pass
            continue
        if v:
            clauses.append(frozenset(toks))
        else:
            neg |= toks
    return clauses, frozenset(neg)


def run_paths(repo, qual, start_after_current=False, env=None, hook_extra=None, body=None):
    """symbolically execute InpFile.<qual> (or a given statement list) -> (fn, states, executor)."""
    fn = repo.func(IO, qual) if isinstance(qual, str) else qual
    ex = SymExec(call_hook=make_hook(hook_extra))
    e = {a.arg: Opaque(a.arg) for a in fn.args.args}
    e.update(env or {})
    st = State(e)
    stmts = body if body is not None else fn.body
    outs = ex.block(stmts, [st])
    return fn, outs, ex


def reader_loop_body(fn):
    """statements of the reader's per-line loop after `current = ...split()` and the empty-line test; binds `current`."""
    loops = [n for n in fn.body if isinstance(n, ast.For)]
    if not loops:
        raise ExtractError("%s: no per-line loop" % fn.name)
    lp = loops[0]
    body = list(lp.body)
    k = 0
    for i, s in enumerate(body):
        if isinstance(s, ast.Assign) and dotted(s.targets[0]) in ("current",) :
            k = i + 1
    if k < len(body) and isinstance(body[k], ast.If) and "current == []" in unparse(body[k].test):
        k += 1
    pre = [s for s in fn.body if s.lineno < lp.lineno]
    return lp, pre, body[:k], body[k:]


def signature(repo, method):
    fn = repo.func(MODEL, "WaterNetworkModel.%s" % method)
    return [a.arg for a in fn.args.args][1:]


def find_convs(v, path=()):
    """yield (Conv, path) inside nested tuples/lists/dicts."""
    if isinstance(v, Conv):
        yield v, path
    elif isinstance(v, (list, tuple)):
        for i, x in enumerate(v):
            for r in find_convs(x, path + (i,)):
                yield r
    elif isinstance(v, dict):
        for k, x in v.items():
            for r in find_convs(x, path + (k,)):
                yield r
