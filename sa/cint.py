"""E10 -- evaluator for the small C/C++ subset of the hand-written extension sources (index loops over arrays, std::set / vector /
queue / stack / deque of integers, helper functions, references).

The source text is tokenised and parsed into a tiny AST which is then evaluated on Python lists standing for the `long *` arrays.
Nothing is compiled or run natively.  The point is shape independence: a rule runs the function on a family of inputs and compares
the result with an independent computation, instead of matching the text of the loop.

Unsupported constructs raise CUnsupported (an ExtractError -> "could not analyse"); an out-of-range array access or a thrown exception of the
evaluated program raises CProgramError (the rule decides what that means).
"""
import re

from .src import ExtractError, AnchorError


class CUnsupported(ExtractError):
    pass


class CProgramError(Exception):
    pass


_TOK = re.compile(r"""
    (?P<ws>\s+|//[^\n]*|/\*.*?\*/|^[ \t]*\#[^\n]*)
  | (?P<num>0[xX][0-9a-fA-F]+[uUlL]*|\d+\.\d*(?:[eE][-+]?\d+)?[fF]?|\d+[uUlL]*)
  | (?P<id>[A-Za-z_]\w*)
  | (?P<str>"(?:\\.|[^"\\])*")
  | (?P<chr>'(?:\\.|[^'\\])')
  | (?P<op>::|->|\+\+|--|<<=|>>=|<=|>=|==|!=|&&|\|\||\+=|-=|\*=|/=|%=|&=|\|=|\^=|<<|>>|[-+*/%<>=!&|^~?:;,.(){}\[\]])
""", re.S | re.X | re.M)


def tokenize(src):
    out = []
    pos = 0
    while pos < len(src):
        m = _TOK.match(src, pos)
        if not m:
            raise CUnsupported("cannot tokenise C++ source at %r" % src[pos:pos + 20])
        pos = m.end()
        k = m.lastgroup
        if k == "ws":
            continue
        out.append((k, m.group(k)))
    out.append(("eof", ""))
    return out


TYPE_WORDS = {"int", "long", "short", "char", "bool", "unsigned", "signed", "void", "auto", "size_t", "double", "float", "const", "static", "inline",
              "extern", "constexpr", "volatile", "register", "std", "typename"}
CONTAINERS = {"set", "vector", "queue", "stack", "deque", "list", "unordered_set", "priority_queue"}


class Parser(object):
    def __init__(self, toks):
        self.t = toks
        self.i = 0

    # -- token helpers
    def peek(self, k=0):
        return self.t[min(self.i + k, len(self.t) - 1)]

    def at(self, v, k=0):
        return self.peek(k)[1] == v and self.peek(k)[0] in ("op", "id")

    def eat(self, v=None):
        tk = self.t[self.i]
        if v is not None and tk[1] != v:
            raise CUnsupported("C++ parse: expected %r, found %r (token %d)" % (v, tk[1], self.i))
        self.i += 1
        return tk

    # -- types
    def try_type(self):
        """parse a type at the cursor; -> dict(kind=..., elem=...) or None (cursor restored)."""
        start = self.i
        words = []
        container = None
        iterator = False
        while True:
            k, v = self.peek()
            if k == "id" and v in TYPE_WORDS and v != "std":
                words.append(v)
                self.i += 1
                continue
            if k == "id" and v == "std" and self.at("::", 1):
                self.i += 2
                k2, v2 = self.peek()
                if v2 in CONTAINERS:
                    self.i += 1
                    container = v2
                    if self.at("<"):
                        depth = 0
                        while True:
                            tv = self.eat()[1]
                            if tv == "<":
                                depth += 1
                            elif tv == ">":
                                depth -= 1
                                if depth == 0:
                                    break
                            elif tv == ">>":
                                depth -= 2
                                if depth <= 0:
                                    break
                            elif tv == "":
                                raise CUnsupported("C++ parse: unterminated template argument list")
                    if self.at("::") and self.peek(1)[1] in ("iterator", "const_iterator", "reverse_iterator", "size_type", "value_type"):
                        self.i += 1
                        it = self.eat()[1]
                        if "iterator" in it:
                            iterator = True
                        else:
                            container = None
                            words.append("int")
                    continue
                if v2 in ("size_t", "int64_t", "int32_t", "ptrdiff_t"):
                    self.i += 1
                    words.append("int")
                    continue
                self.i = start
                return None
            break
        if not words and container is None:
            self.i = start
            return None
        if not [w for w in words if w not in ("const", "static", "inline", "extern", "constexpr", "volatile", "register", "typename")] and container is None:
            self.i = start
            return None
        while self.at("const"):
            self.i += 1
        if iterator:
            return {"kind": "iterator"}
        if container:
            return {"kind": "container", "container": container}
        base = "void" if "void" in words else ("auto" if "auto" in words else ("float" if ("double" in words or "float" in words) else ("bool" if "bool" in words else "int")))
        return {"kind": base}

    def declarator(self):
        """-> (name, ptr_depth, is_ref)"""
        ptr = 0
        ref = False
        while True:
            if self.at("*"):
                ptr += 1
                self.i += 1
            elif self.at("&"):
                ref = True
                self.i += 1
            elif self.at("const"):
                self.i += 1
            else:
                break
        k, v = self.peek()
        if k != "id":
            raise CUnsupported("C++ parse: declarator name expected, found %r" % v)
        self.i += 1
        return v, ptr, ref

    # -- top level
    def translation_unit(self):
        funcs = {}
        protos = {}
        self._top(funcs, protos, toplevel=True)
        return funcs

    def _top(self, funcs, protos, toplevel):
        while True:
            k, v = self.peek()
            if k == "eof":
                if not toplevel:
                    raise CUnsupported("C++ parse: unterminated namespace")
                return
            if v == "}" and not toplevel:
                self.i += 1
                return
            if v == ";":
                self.i += 1
                continue
            if v == "namespace":
                self.i += 1
                if self.peek()[0] == "id":
                    self.i += 1
                self.eat("{")
                self._top(funcs, protos, toplevel=False)
                continue
            if v == "using":
                while self.eat()[1] != ";":
                    pass
                continue
            if v == "extern" and self.peek(1)[0] == "str":
                self.i += 2
                if self.at("{"):
                    self.i += 1
                    self._top(funcs, protos, toplevel=False)
                continue
            ty = self.try_type()
            if ty is None:
                raise CUnsupported("C++ parse: unsupported top-level construct at %r" % v)
            name, ptr, ref = self.declarator()
            if self.at("("):
                params = self.params()
                if self.at(";"):
                    self.i += 1
                    continue
                body = self.block()
                funcs[name] = {"name": name, "ret": ty, "params": params, "body": body}
                continue
            # global variable
            init = None
            if self.at("="):
                self.i += 1
                init = self.assign_expr()
            self.eat(";")
            funcs.setdefault("__globals__", []).append((name, ty, init))

    def params(self):
        self.eat("(")
        ps = []
        if self.at("void") and self.at(")", 1):
            self.i += 1
        while not self.at(")"):
            ty = self.try_type()
            if ty is None:
                raise CUnsupported("C++ parse: parameter type expected at %r" % self.peek()[1])
            name, ptr, ref = self.declarator()
            if self.at("["):
                self.i += 1
                while not self.at("]"):
                    self.i += 1
                self.i += 1
                ptr += 1
            ps.append({"name": name, "type": ty, "ptr": ptr, "ref": ref})
            if self.at(","):
                self.i += 1
        self.eat(")")
        return ps

    # -- statements
    def block(self):
        self.eat("{")
        out = []
        while not self.at("}"):
            if self.peek()[0] == "eof":
                raise CUnsupported("C++ parse: unterminated block")
            out.append(self.statement())
        self.eat("}")
        return ("block", out)

    def statement(self):
        k, v = self.peek()
        if v == "{":
            return self.block()
        if v == ";":
            self.i += 1
            return ("block", [])
        if v == "if":
            self.i += 1
            self.eat("(")
            c = self.expr()
            self.eat(")")
            a = self.statement()
            b = None
            if self.at("else"):
                self.i += 1
                b = self.statement()
            return ("if", c, a, b)
        if v == "while":
            self.i += 1
            self.eat("(")
            c = self.expr()
            self.eat(")")
            return ("while", c, self.statement())
        if v == "do":
            self.i += 1
            b = self.statement()
            self.eat("while")
            self.eat("(")
            c = self.expr()
            self.eat(")")
            self.eat(";")
            return ("dowhile", c, b)
        if v == "for":
            self.i += 1
            self.eat("(")
            save = self.i
            ty = self.try_type()
            if ty is not None:
                name, ptr, ref = self.declarator()
                if self.at(":"):
                    self.i += 1
                    seq = self.expr()
                    self.eat(")")
                    return ("rangefor", name, ref, seq, self.statement())
                self.i = save
            init = None
            if not self.at(";"):
                init = self.simple_decl_or_expr()
            else:
                self.i += 1
            cond = None
            if not self.at(";"):
                cond = self.expr()
            self.eat(";")
            step = None
            if not self.at(")"):
                step = self.expr()
            self.eat(")")
            return ("for", init, cond, step, self.statement())
        if v == "break":
            self.i += 1
            self.eat(";")
            return ("break",)
        if v == "continue":
            self.i += 1
            self.eat(";")
            return ("continue",)
        if v == "return":
            self.i += 1
            e = None
            if not self.at(";"):
                e = self.expr()
            self.eat(";")
            return ("return", e)
        if v == "throw":
            self.i += 1
            e = None
            if not self.at(";"):
                e = self.expr()
            self.eat(";")
            return ("throw", e)
        if v in ("switch", "goto", "try", "class", "struct", "template", "typedef"):
            raise CUnsupported("C++ statement %r not modelled" % v)
        return self.simple_decl_or_expr()

    def simple_decl_or_expr(self):
        """declaration or expression statement, consumes the ';'"""
        save = self.i
        ty = self.try_type()
        if ty is not None and (self.peek()[0] == "id" or self.at("*") or self.at("&")):
            decls = []
            while True:
                name, ptr, ref = self.declarator()
                init = None
                if self.at("="):
                    self.i += 1
                    init = self.assign_expr()
                elif self.at("(") or self.at("{"):
                    close = ")" if self.at("(") else "}"
                    self.i += 1
                    args = []
                    while not self.at(close):
                        args.append(self.assign_expr())
                        if self.at(","):
                            self.i += 1
                    self.eat(close)
                    init = ("ctor", args)
                elif self.at("["):
                    self.i += 1
                    n = self.expr()
                    self.eat("]")
                    init = ("array", n)
                decls.append((name, ty, ptr, ref, init))
                if self.at(","):
                    self.i += 1
                    continue
                break
            self.eat(";")
            return ("decl", decls)
        self.i = save
        e = self.expr()
        self.eat(";")
        return ("expr", e)

    # -- expressions (precedence climbing)
    def expr(self):
        e = self.assign_expr()
        while self.at(","):
            self.i += 1
            e = ("comma", e, self.assign_expr())
        return e

    def assign_expr(self):
        lhs = self.ternary()
        k, v = self.peek()
        if k == "op" and v in ("=", "+=", "-=", "*=", "/=", "%=", "&=", "|=", "^=", "<<=", ">>="):
            self.i += 1
            rhs = self.assign_expr()
            return ("assign", v, lhs, rhs)
        return lhs

    def ternary(self):
        c = self.binary(0)
        if self.at("?"):
            self.i += 1
            a = self.assign_expr()
            self.eat(":")
            b = self.assign_expr()
            return ("cond", c, a, b)
        return c

    LEVELS = [["||"], ["&&"], ["|"], ["^"], ["&"], ["==", "!="], ["<", "<=", ">", ">="], ["<<", ">>"], ["+", "-"], ["*", "/", "%"]]

    def binary(self, lvl):
        if lvl == len(self.LEVELS):
            return self.unary()
        e = self.binary(lvl + 1)
        while self.peek()[0] == "op" and self.peek()[1] in self.LEVELS[lvl]:
            op = self.eat()[1]
            r = self.binary(lvl + 1)
            e = ("bin", op, e, r)
        return e

    def unary(self):
        k, v = self.peek()
        if k == "op" and v in ("!", "-", "+", "~", "*", "&"):
            self.i += 1
            return ("un", v, self.unary())
        if k == "op" and v in ("++", "--"):
            self.i += 1
            return ("preinc", v, self.unary())
        if v == "sizeof":
            self.i += 1
            self.eat("(")
            ty = self.try_type()
            if ty is None:
                self.expr()
            else:
                while self.at("*"):
                    self.i += 1
            self.eat(")")
            return ("num", 8)
        if v == "(":
            # cast?
            save = self.i
            self.i += 1
            ty = self.try_type()
            if ty is not None:
                while self.at("*") or self.at("&"):
                    self.i += 1
                if self.at(")"):
                    self.i += 1
                    return ("cast", ty, self.unary())
            self.i = save
        if v in ("static_cast", "reinterpret_cast", "const_cast", "dynamic_cast"):
            self.i += 1
            self.eat("<")
            ty = self.try_type()
            while not self.at(">"):
                self.i += 1
            self.eat(">")
            self.eat("(")
            e = self.expr()
            self.eat(")")
            return ("cast", ty or {"kind": "int"}, e)
        return self.postfix()

    def postfix(self):
        e = self.primary()
        while True:
            k, v = self.peek()
            if v == "[" and k == "op":
                self.i += 1
                ix = self.expr()
                self.eat("]")
                e = ("index", e, ix)
            elif v == "(" and k == "op":
                self.i += 1
                args = []
                while not self.at(")"):
                    args.append(self.assign_expr())
                    if self.at(","):
                        self.i += 1
                self.eat(")")
                e = ("call", e, args)
            elif v in (".", "->") and k == "op":
                self.i += 1
                name = self.eat()[1]
                e = ("member", e, name)
            elif v in ("++", "--") and k == "op":
                self.i += 1
                e = ("postinc", v, e)
            else:
                return e

    def primary(self):
        k, v = self.peek()
        if k == "num":
            self.i += 1
            txt = v.rstrip("uUlLfF")
            if txt.lower().startswith("0x"):
                return ("num", int(txt, 16))
            return ("num", float(txt) if ("." in txt or "e" in txt.lower()) else int(txt))
        if k == "str":
            self.i += 1
            return ("str", v[1:-1])
        if k == "chr":
            self.i += 1
            return ("num", ord(v[1:-1][-1]))
        if v == "(":
            self.i += 1
            e = self.expr()
            self.eat(")")
            return e
        if k == "id":
            if v in ("true", "false"):
                self.i += 1
                return ("num", 1 if v == "true" else 0)
            if v in ("nullptr", "NULL"):
                self.i += 1
                return ("num", 0)
            # qualified name  a::b::c  (template arguments after std:: names are skipped)
            name = v
            self.i += 1
            while self.at("::"):
                self.i += 1
                name += "::" + self.eat()[1]
                if self.at("<") and name.startswith("std::") and name.split("::")[-1] in CONTAINERS | {"numeric_limits", "max", "min"}:
                    depth = 0
                    while True:
                        tv = self.eat()[1]
                        if tv == "<":
                            depth += 1
                        elif tv == ">":
                            depth -= 1
                            if depth == 0:
                                break
            return ("name", name)
        raise CUnsupported("C++ parse: unexpected token %r" % v)


# --------------------------------------------------------------------------------------------- values
class Cell(object):
    __slots__ = ("v",)

    def __init__(self, v=None):
        self.v = v


class ElemRef(object):
    """lvalue: element of an array / vector"""
    __slots__ = ("arr", "i")

    def __init__(self, arr, i):
        self.arr, self.i = arr, i

    def _chk(self):
        if not (isinstance(self.i, int) and 0 <= self.i < len(self.arr)):
            raise CProgramError("array access out of range: index %r, length %d" % (self.i, len(self.arr)))

    @property
    def v(self):
        self._chk()
        return self.arr[self.i]

    @v.setter
    def v(self, x):
        self._chk()
        self.arr[self.i] = x


class Ptr(object):
    """pointer into a Python list"""
    __slots__ = ("arr", "off")

    def __init__(self, arr, off=0):
        self.arr, self.off = arr, off


class CSet(object):
    """std::set<int>: kept as a sorted list"""
    kind = "set"

    def __init__(self, items=()):
        self.v = sorted(set(items))

    def copy(self):
        return CSet(self.v)


class CSeq(object):
    """std::vector / deque / queue / stack / list of ints"""

    def __init__(self, kind, items=()):
        self.kind = kind
        self.v = list(items)

    def copy(self):
        return CSeq(self.kind, self.v)


class CIter(object):
    __slots__ = ("c", "pos")

    def __init__(self, c, pos):
        self.c, self.pos = c, pos

    def __eq__(self, o):
        return isinstance(o, CIter) and o.c is self.c and o.pos == self.pos

    def __ne__(self, o):
        return not self.__eq__(o)

    __hash__ = None


class _Brk(Exception):
    pass


class _Cnt(Exception):
    pass


class _Ret(Exception):
    def __init__(self, v):
        self.v = v


class CInterp(object):
    def __init__(self, source, fuel=2000000):
        self.funcs = Parser(tokenize(source)).translation_unit()
        self.fuel0 = fuel
        self.fuel = fuel

    def has(self, name):
        return name in self.funcs

    def signature(self, name):
        if name not in self.funcs:
            raise AnchorError("C++ function %s not found" % name)
        return self.funcs[name]["params"]

    def call(self, name, args):
        """args: Python ints, or lists (for pointer parameters; mutated in place)."""
        self.fuel = self.fuel0
        return self._call(name, [Ptr(a) if isinstance(a, list) else a for a in args], None)

    # -- calls
    def _call(self, name, args, argnodes_env):
        if name not in self.funcs:
            raise CUnsupported("call of the unmodelled C++ function %s" % name)
        f = self.funcs[name]
        if len(args) != len(f["params"]):
            raise CProgramError("%s called with %d arguments, takes %d" % (name, len(args), len(f["params"])))
        env = [{}]
        for p, a in zip(f["params"], args):
            if isinstance(a, (Cell, ElemRef)):
                if p["ref"]:
                    env[0][p["name"]] = a
                    continue
                a = a.v
            if isinstance(a, (CSet, CSeq)) and not p["ref"] and not p["ptr"]:
                a = a.copy()
            env[0][p["name"]] = Cell(a)
        try:
            self.exec_(f["body"], env)
        except _Ret as r:
            return r.v
        return None

    def tick(self):
        self.fuel -= 1
        if self.fuel <= 0:
            raise CProgramError("evaluation budget exhausted: the C++ function does not terminate on this input")

    # -- statements
    def exec_(self, s, env):
        self.tick()
        k = s[0]
        if k == "block":
            env.append({})
            try:
                for x in s[1]:
                    self.exec_(x, env)
            finally:
                env.pop()
        elif k == "expr":
            self.rv(s[1], env)
        elif k == "decl":
            for name, ty, ptr, ref, init in s[1]:
                self.declare(name, ty, ptr, ref, init, env)
        elif k == "if":
            if self.truth(self.rv(s[1], env)):
                self.exec_(s[2], env)
            elif s[3] is not None:
                self.exec_(s[3], env)
        elif k == "while":
            while self.truth(self.rv(s[1], env)):
                self.tick()
                try:
                    self.exec_(s[2], env)
                except _Brk:
                    break
                except _Cnt:
                    continue
        elif k == "dowhile":
            while True:
                self.tick()
                try:
                    self.exec_(s[2], env)
                except _Brk:
                    break
                except _Cnt:
                    pass
                if not self.truth(self.rv(s[1], env)):
                    break
        elif k == "for":
            env.append({})
            try:
                if s[1] is not None:
                    self.exec_(s[1], env)
                while s[2] is None or self.truth(self.rv(s[2], env)):
                    self.tick()
                    try:
                        self.exec_(s[4], env)
                    except _Brk:
                        break
                    except _Cnt:
                        pass
                    if s[3] is not None:
                        self.rv(s[3], env)
            finally:
                env.pop()
        elif k == "rangefor":
            seq = self.rv(s[3], env)
            if not isinstance(seq, (CSet, CSeq)):
                raise CUnsupported("range-for over a non-container")
            for idx, x in enumerate(list(seq.v)):
                self.tick()
                env.append({s[1]: (ElemRef(seq.v, idx) if (s[2] and isinstance(seq, CSeq)) else Cell(x))})
                try:
                    self.exec_(s[4], env)
                except _Brk:
                    env.pop()
                    break
                except _Cnt:
                    pass
                env.pop()
        elif k == "break":
            raise _Brk()
        elif k == "continue":
            raise _Cnt()
        elif k == "return":
            raise _Ret(self.rv(s[1], env) if s[1] is not None else None)
        elif k == "throw":
            raise CProgramError("the C++ function throws")
        else:
            raise CUnsupported("C++ statement kind %s" % k)

    def declare(self, name, ty, ptr, ref, init, env):
        scope = env[-1]
        if ref:
            if init is None or (isinstance(init, tuple) and init[0] in ("ctor", "array")):
                raise CUnsupported("reference %s without initialiser" % name)
            scope[name] = self.lv(init, env)
            return
        if ty["kind"] == "container" and not ptr:
            c = ty["container"]
            items = []
            if init is not None:
                if init[0] == "ctor":
                    vals = [self.rv(a, env) for a in init[1]]
                    if len(vals) == 1 and isinstance(vals[0], (CSet, CSeq)):
                        items = list(vals[0].v)
                    elif len(vals) == 2 and all(isinstance(x, int) for x in vals) and c in ("vector", "deque", "list"):
                        items = [vals[1]] * vals[0]
                    elif len(vals) == 1 and isinstance(vals[0], int) and c in ("vector", "deque", "list"):
                        items = [0] * vals[0]
                    elif vals:
                        raise CUnsupported("container constructor form")
                else:
                    v = self.rv(init, env)
                    if isinstance(v, (CSet, CSeq)):
                        items = list(v.v)
                    else:
                        raise CUnsupported("container initialiser")
            scope[name] = Cell(CSet(items) if c in ("set", "unordered_set", "priority_queue") else CSeq(c, items))
            if c == "priority_queue":
                scope[name].v.kind = "priority_queue"
            return
        if init is None:
            scope[name] = Cell(None)          # uninitialised: reading it is an error
            return
        if init[0] == "array":
            scope[name] = Cell(Ptr([0] * self.rv(init[1], env)))
            return
        if init[0] == "ctor":
            if len(init[1]) != 1:
                raise CUnsupported("constructor initialiser of a scalar")
            v = self.rv(init[1][0], env)
        else:
            v = self.rv(init, env)
        scope[name] = Cell(self.coerce(v, ty, ptr))

    def coerce(self, v, ty, ptr=0):
        if ptr or ty["kind"] in ("auto", "iterator", "container", "void"):
            return v
        if ty["kind"] == "int" and isinstance(v, float):
            return int(v)
        if ty["kind"] == "int" and isinstance(v, bool):
            return int(v)
        if ty["kind"] == "bool" and isinstance(v, (int, float)):
            return 1 if v else 0
        if ty["kind"] == "float" and isinstance(v, int):
            return float(v)
        return v

    # -- expressions
    def truth(self, v):
        if v is None:
            raise CProgramError("an uninitialised value is used in a condition")
        if isinstance(v, (int, float)):
            return v != 0
        if isinstance(v, Ptr):
            return True
        raise CUnsupported("truth value of %r" % (v,))

    def find(self, name, env):
        for scope in reversed(env):
            if name in scope:
                return scope[name]
        return None

    def lv(self, e, env):
        """-> Cell / ElemRef"""
        k = e[0]
        if k == "name":
            c = self.find(e[1], env)
            if c is None:
                raise CUnsupported("unknown C++ identifier %s" % e[1])
            return c
        if k == "index":
            base = self.rv(e[1], env)
            ix = self.rv(e[2], env)
            if ix is None:
                raise CProgramError("an uninitialised value is used as an index")
            if isinstance(base, Ptr):
                return ElemRef(base.arr, base.off + ix)
            if isinstance(base, CSeq):
                return ElemRef(base.v, ix)
            raise CUnsupported("subscript of %r" % (base,))
        if k == "un" and e[1] == "*":
            p = self.rv(e[2], env)
            if isinstance(p, Ptr):
                return ElemRef(p.arr, p.off)
            if isinstance(p, CIter):
                return self.iter_ref(p)
            raise CUnsupported("dereference of %r" % (p,))
        if k == "preinc":
            self.rv(e, env)
            return self.lv(e[2], env)
        if k == "member" and e[2] in ("front", "back", "top"):
            raise CUnsupported("member lvalue")
        if k == "call":
            f = e[1]
            if f[0] == "member" and f[2] in ("front", "back", "top", "at"):
                c = self.rv(f[1], env)
                if isinstance(c, CSeq):
                    if f[2] == "at":
                        return ElemRef(c.v, self.rv(e[2][0], env))
                    if not c.v:
                        raise CProgramError("%s() of an empty container" % f[2])
                    return ElemRef(c.v, 0 if (f[2] == "front" or (f[2] == "top" and c.kind == "queue")) else len(c.v) - 1)
        if k == "assign":
            self.rv(e, env)
            return self.lv(e[2], env)
        raise CUnsupported("C++ lvalue form %s" % k)

    def iter_ref(self, it):
        if not (0 <= it.pos < len(it.c.v)):
            raise CProgramError("dereference of an end()/invalid iterator")
        return ElemRef(it.c.v, it.pos)

    def rv(self, e, env):
        self.tick()
        k = e[0]
        if k == "num":
            return e[1]
        if k == "str":
            return e[1]
        if k == "name":
            c = self.find(e[1], env)
            if c is None:
                if e[1] in ("INT_MAX", "std::numeric_limits::max"):
                    return 2 ** 31 - 1
                if e[1] in ("LONG_MAX",):
                    return 2 ** 63 - 1
                if e[1] == "CHAR_BIT":
                    return 8
                raise CUnsupported("unknown C++ identifier %s" % e[1])
            v = c.v
            if v is None:
                raise CProgramError("the variable %s is read before it is initialised" % e[1])
            return v
        if k in ("index",):
            return self.lv(e, env).v
        if k == "un":
            op = e[1]
            if op == "*":
                return self.lv(e, env).v
            if op == "&":
                r = self.lv(e[2], env)
                if isinstance(r, ElemRef):
                    return Ptr(r.arr, r.i)
                if isinstance(r, Cell) and isinstance(r.v, (CSet, CSeq)):
                    return r.v
                raise CUnsupported("address of a scalar variable")
            v = self.rv(e[2], env)
            if op == "!":
                return 0 if self.truth(v) else 1
            if op == "-":
                return -v
            if op == "+":
                return v
            if op == "~":
                return ~v
        if k == "preinc" or k == "postinc":
            ref = self.lv(e[2], env)
            old = ref.v
            d = 1 if e[1] == "++" else -1
            if isinstance(old, CIter):
                new = CIter(old.c, old.pos + d)
                if new.pos < 0 or new.pos > len(old.c.v):
                    raise CProgramError("iterator moved out of range")
            elif isinstance(old, Ptr):
                new = Ptr(old.arr, old.off + d)
            elif old is None:
                raise CProgramError("increment of an uninitialised variable")
            else:
                new = old + d
            ref.v = new
            return new if k == "preinc" else old
        if k == "assign":
            op = e[1]
            ref = self.lv(e[2], env)
            val = self.rv(e[3], env)
            if op != "=":
                cur = ref.v
                if cur is None:
                    raise CProgramError("compound assignment to an uninitialised variable")
                val = self.arith(op[:-1], cur, val)
            if isinstance(val, (CSet, CSeq)):
                val = val.copy()
            ref.v = val
            return val
        if k == "bin":
            op = e[1]
            if op == "&&":
                return 1 if (self.truth(self.rv(e[2], env)) and self.truth(self.rv(e[3], env))) else 0
            if op == "||":
                return 1 if (self.truth(self.rv(e[2], env)) or self.truth(self.rv(e[3], env))) else 0
            return self.arith(op, self.rv(e[2], env), self.rv(e[3], env))
        if k == "cond":
            return self.rv(e[2], env) if self.truth(self.rv(e[1], env)) else self.rv(e[3], env)
        if k == "comma":
            self.rv(e[1], env)
            return self.rv(e[2], env)
        if k == "cast":
            return self.coerce(self.rv(e[2], env), e[1])
        if k == "call":
            return self.call_expr(e, env)
        if k == "member":
            if e[2] in ("first", "second"):
                raise CUnsupported("pair members")
            raise CUnsupported("member access .%s without a call" % e[2])
        if k == "ctor":
            raise CUnsupported("constructor expression")
        raise CUnsupported("C++ expression kind %s" % k)

    def arith(self, op, a, b):
        if a is None or b is None:
            raise CProgramError("an uninitialised value is used in an expression")
        if isinstance(a, CIter) or isinstance(b, CIter):
            if op == "==":
                return 1 if a == b else 0
            if op == "!=":
                return 1 if a != b else 0
            if op in ("+", "-") and isinstance(a, CIter) and isinstance(b, int) and isinstance(a.c, CSeq):
                return CIter(a.c, a.pos + (b if op == "+" else -b))
            if op == "-" and isinstance(a, CIter) and isinstance(b, CIter):
                return a.pos - b.pos
            raise CUnsupported("iterator arithmetic %s" % op)
        if isinstance(a, Ptr) or isinstance(b, Ptr):
            if op == "+" and isinstance(a, Ptr) and isinstance(b, int):
                return Ptr(a.arr, a.off + b)
            if op == "+" and isinstance(b, Ptr) and isinstance(a, int):
                return Ptr(b.arr, b.off + a)
            if op == "-" and isinstance(a, Ptr) and isinstance(b, int):
                return Ptr(a.arr, a.off - b)
            if op in ("==", "!=") and isinstance(a, Ptr) and isinstance(b, Ptr):
                same = a.arr is b.arr and a.off == b.off
                return 1 if same == (op == "==") else 0
            raise CUnsupported("pointer arithmetic %s" % op)
        if not isinstance(a, (int, float)) or not isinstance(b, (int, float)):
            raise CUnsupported("arithmetic on %r, %r" % (a, b))
        if op == "+":
            return a + b
        if op == "-":
            return a - b
        if op == "*":
            return a * b
        if op == "/":
            if b == 0:
                raise CProgramError("division by zero")
            if isinstance(a, int) and isinstance(b, int):
                q = abs(a) // abs(b)
                return q if (a >= 0) == (b >= 0) else -q
            return a / b
        if op == "%":
            if b == 0:
                raise CProgramError("division by zero")
            r = abs(a) % abs(b)
            return r if a >= 0 else -r
        if op == "==":
            return 1 if a == b else 0
        if op == "!=":
            return 1 if a != b else 0
        if op == "<":
            return 1 if a < b else 0
        if op == "<=":
            return 1 if a <= b else 0
        if op == ">":
            return 1 if a > b else 0
        if op == ">=":
            return 1 if a >= b else 0
        if op == "&":
            return a & b
        if op == "|":
            return a | b
        if op == "^":
            return a ^ b
        if op == "<<":
            return a << b
        if op == ">>":
            return a >> b
        raise CUnsupported("operator %s" % op)

    def call_expr(self, e, env):
        f, argn = e[1], e[2]
        if f[0] == "member":
            obj = self.rv(f[1], env)
            return self.method(obj, f[2], argn, env)
        if f[0] != "name":
            raise CUnsupported("call through an expression")
        name = f[1]
        if name in self.funcs:
            fn = self.funcs[name]
            args = []
            for p, a in zip(fn["params"], argn):
                if p["ref"]:
                    try:
                        args.append(self.lv(a, env))
                        continue
                    except CUnsupported:
                        pass
                args.append(self.rv(a, env))
            if len(argn) != len(fn["params"]):
                raise CProgramError("%s called with %d arguments, takes %d" % (name, len(argn), len(fn["params"])))
            return self._call(name, args, env)
        args = [self.rv(a, env) for a in argn]
        short = name.split("::")[-1]
        if short in ("min", "max") and len(args) == 2:
            return min(args) if short == "min" else max(args)
        if short == "abs" and len(args) == 1:
            return abs(args[0])
        if short in ("prev", "next") and len(args) in (1, 2) and isinstance(args[0], CIter):
            d = (args[1] if len(args) == 2 else 1) * (1 if short == "next" else -1)
            it = CIter(args[0].c, args[0].pos + d)
            if it.pos < 0 or it.pos > len(it.c.v):
                raise CProgramError("iterator moved out of range")
            return it
        if short in ("runtime_error", "invalid_argument", "out_of_range", "logic_error"):
            return 0
        raise CUnsupported("call of the unmodelled C++ function %s" % name)

    def method(self, obj, m, argn, env):
        args = [self.rv(a, env) for a in argn]
        if isinstance(obj, CSet):
            v = obj.v
            if m == "insert" and len(args) == 1:
                x = args[0]
                import bisect
                i = bisect.bisect_left(v, x)
                if i < len(v) and v[i] == x:
                    return 0
                v.insert(i, x)
                return 1
            if m in ("push", "emplace") and len(args) == 1:
                return self.method(obj, "insert", argn, env)
            if m == "empty":
                return 1 if not v else 0
            if m == "size":
                return len(v)
            if m == "begin":
                return CIter(obj, 0)
            if m == "end":
                return CIter(obj, len(v))
            if m == "clear":
                del v[:]
                return None
            if m == "count":
                return 1 if args[0] in v else 0
            if m == "find":
                return CIter(obj, v.index(args[0])) if args[0] in v else CIter(obj, len(v))
            if m == "erase":
                a = args[0]
                if isinstance(a, CIter):
                    if a.c is not obj or not (0 <= a.pos < len(v)):
                        raise CProgramError("erase of an end()/invalid iterator")
                    del v[a.pos]
                    return CIter(obj, a.pos)
                if a in v:
                    v.remove(a)
                    return 1
                return 0
            if m == "top" and getattr(obj, "kind", "") == "priority_queue":
                if not v:
                    raise CProgramError("top() of an empty container")
                return v[-1]
            if m == "pop" and getattr(obj, "kind", "") == "priority_queue":
                if not v:
                    raise CProgramError("pop() of an empty container")
                v.pop()
                return None
            if m in ("rbegin",):
                raise CUnsupported("reverse iterators")
        if isinstance(obj, CSeq):
            v = obj.v
            kind = obj.kind
            if m in ("push_back", "emplace_back") or (m in ("push", "emplace") and kind in ("queue", "stack")):
                v.append(args[0])
                return None
            if m == "push_front":
                v.insert(0, args[0])
                return None
            if m == "pop_back" or (m == "pop" and kind == "stack"):
                if not v:
                    raise CProgramError("pop of an empty container")
                v.pop()
                return None
            if m == "pop_front" or (m == "pop" and kind == "queue"):
                if not v:
                    raise CProgramError("pop of an empty container")
                v.pop(0)
                return None
            if m == "front" or (m == "top" and kind == "queue"):
                if not v:
                    raise CProgramError("front() of an empty container")
                return v[0]
            if m == "back" or (m == "top" and kind == "stack"):
                if not v:
                    raise CProgramError("back() of an empty container")
                return v[-1]
            if m == "empty":
                return 1 if not v else 0
            if m == "size":
                return len(v)
            if m == "clear":
                del v[:]
                return None
            if m == "at":
                return ElemRef(v, args[0]).v
            if m == "begin":
                return CIter(obj, 0)
            if m == "end":
                return CIter(obj, len(v))
            if m == "reserve":
                return None
            if m == "resize":
                n = args[0]
                fill = args[1] if len(args) > 1 else 0
                del v[n:]
                v.extend([fill] * (n - len(v)))
                return None
            if m == "erase" and isinstance(args[0], CIter):
                a = args[0]
                if not (0 <= a.pos < len(v)):
                    raise CProgramError("erase of an end()/invalid iterator")
                del v[a.pos]
                return CIter(obj, a.pos)
        raise CUnsupported("C++ method %s on %s not modelled" % (m, type(obj).__name__))
