"""Stand-ins for the small part of pandas that wntr/metrics/topographic.py uses on the valve layer and on the label series.

They are plain Python objects handed to the in-house interpreter (sa/concrete.py) in place of pandas objects when a repository function is
evaluated on fixtures (T3).  They are part of the trusted base: an operation that is not modelled raises Unsupported ("could not analyse"),
never a guess.  Semantics follow pandas for the cases covered: label based [] on a Series, boolean-mask row selection on a frame,
value_counts sorted by count, concat(axis=1) as an outer join on the index in order of first appearance.
"""
from .concrete import Unsupported, NDArr

NAN = float("nan")


def _isnan(x):
    return isinstance(x, float) and x != x


class StrAccessor(object):
    _sa_mock = True

    def __init__(self, items):
        self._items = items

    def __getitem__(self, key):
        if not isinstance(key, slice):
            raise Unsupported(".str[...] with a non-slice key")
        return MiniIndex([s[key] for s in self._items])


class MiniIndex(list):
    _sa_mock = True

    @property
    def str(self):
        return StrAccessor(list(self))

    def tolist(self):
        return list(self)

    def unique(self):
        out = []
        for x in self:
            if x not in out:
                out.append(x)
        return MiniIndex(out)

    def intersection(self, other):
        other = list(other)
        out = []
        for x in self:
            if x in other and x not in out:
                out.append(x)
        return MiniIndex(out)

    def union(self, other):
        out = []
        for x in list(self) + list(other):
            if x not in out:
                out.append(x)
        return MiniIndex(out)

    def difference(self, other):
        other = list(other)
        return MiniIndex([x for x in self.unique() if x not in other])


class _Loc(object):
    _sa_mock = True

    def __init__(self, owner, positional):
        self._o, self._pos = owner, positional

    def __getitem__(self, key):
        return self._o._row(key, self._pos)

    def __setitem__(self, key, value):
        self._o._set_row(key, value, self._pos)


class _GroupBy(object):
    _sa_mock = True

    def __init__(self, series, labels):
        self._groups = {}
        for lab, v in zip(labels, series._values):
            self._groups.setdefault(lab, []).append(v)

    def _agg(self, f):
        keys = sorted(self._groups, key=lambda k: (str(type(k)), k))          # pandas sorts the group keys
        return MiniSeries([f(self._groups[k]) for k in keys], index=keys)

    def sum(self):
        return self._agg(lambda vs: sum(vs))

    def count(self):
        return self._agg(len)

    def size(self):
        return self._agg(len)

    def mean(self):
        return self._agg(lambda vs: sum(vs) / len(vs))

    def max(self):
        return self._agg(max)

    def min(self):
        return self._agg(min)


class MiniSeries(object):
    _sa_mock = True

    def __init__(self, data=None, index=None, dtype=None, name=None):
        if isinstance(data, MiniSeries):
            index = list(data._index) if index is None else index
            data = list(data._values)
        if isinstance(data, dict):
            index = list(data) if index is None else index
            data = [data[k] for k in index]
        if isinstance(data, NDArr):
            data = list(data.v)
        if data is None:
            data = []
        if isinstance(data, (int, float, str, bool)):
            if index is None:
                raise Unsupported("Series(scalar) without an index")
            data = [data] * len(list(index))
        self._values = list(data)
        self._index = MiniIndex(index) if index is not None else MiniIndex(range(len(self._values)))
        if len(self._index) != len(self._values):
            raise ValueError("Length of values (%d) does not match length of index (%d)" % (len(self._values), len(self._index)))
        self.name = name
        if dtype in (int, "int", "int64"):
            self._values = [int(v) for v in self._values]
        elif dtype in (float, "float", "float64"):
            self._values = [float(v) for v in self._values]

    # ---- basics
    def __repr__(self):
        return "<series %s>" % dict(zip(self._index, self._values))

    def __len__(self):
        return len(self._values)

    def __iter__(self):
        return iter(self._values)

    @property
    def index(self):
        return self._index

    @index.setter
    def index(self, new):
        new = MiniIndex(new)
        if len(new) != len(self._values):
            raise ValueError("Length mismatch: Expected axis has %d elements, new values have %d elements" % (len(self._values), len(new)))
        self._index = new

    @property
    def values(self):
        return list(self._values)

    @property
    def shape(self):
        return (len(self._values),)

    @property
    def loc(self):
        return _Loc(self, False)

    @property
    def at(self):
        return _Loc(self, False)

    @property
    def iloc(self):
        return _Loc(self, True)

    @property
    def iat(self):
        return _Loc(self, True)

    def _row(self, key, positional):
        if positional:
            if isinstance(key, slice):
                return MiniSeries(self._values[key], self._index[key], name=self.name)
            return self._values[key]
        return self[key]

    def _set_row(self, key, value, positional):
        if positional:
            self._values[key] = value
        else:
            self[key] = value

    def _cmp(self, other, f):
        if isinstance(other, MiniSeries):
            if list(other._index) != list(self._index):
                raise Unsupported("comparison of differently indexed series")
            return MiniSeries([f(a, b) for a, b in zip(self._values, other._values)], self._index)
        return MiniSeries([f(a, other) for a in self._values], self._index)

    def __eq__(self, other):
        return self._cmp(other, lambda a, b: a == b)

    def __ne__(self, other):
        return self._cmp(other, lambda a, b: a != b)

    __hash__ = None

    def isin(self, values):
        vs = list(values)
        return MiniSeries([a in vs for a in self._values], self._index)

    def __and__(self, other):
        return self._cmp(other, lambda a, b: bool(a) and bool(b))

    def __or__(self, other):
        return self._cmp(other, lambda a, b: bool(a) or bool(b))

    def __invert__(self):
        return MiniSeries([not a for a in self._values], self._index)

    def __getitem__(self, key):
        if isinstance(key, MiniSeries) and all(isinstance(v, bool) for v in key._values):
            if len(key) != len(self):
                raise Unsupported("boolean mask of another length")
            keep = [i for i, m in enumerate(key._values) if m]
            return MiniSeries([self._values[i] for i in keep], [self._index[i] for i in keep], name=self.name)
        if isinstance(key, (list, tuple, MiniIndex, NDArr)):
            labels = list(key.v) if isinstance(key, NDArr) else list(key)
            pos = []
            for lab in labels:
                hits = [i for i, x in enumerate(self._index) if x == lab]
                if not hits:
                    raise KeyError(lab)
                pos.extend(hits)
            return MiniSeries([self._values[i] for i in pos], [self._index[i] for i in pos], name=self.name)
        if isinstance(key, slice):
            raise Unsupported("slice of a series by []")
        hits = [i for i, x in enumerate(self._index) if x == key]
        if not hits:
            raise KeyError(key)
        if len(hits) > 1:
            return MiniSeries([self._values[i] for i in hits], [self._index[i] for i in hits], name=self.name)
        return self._values[hits[0]]

    def __setitem__(self, key, value):
        hits = [i for i, x in enumerate(self._index) if x == key]
        if not hits:
            self._index.append(key)
            self._values.append(value)
        for i in hits:
            self._values[i] = value

    def __contains__(self, key):
        return key in self._index

    def items(self):
        return list(zip(self._index, self._values))

    def keys(self):
        return self._index

    def tolist(self):
        return list(self._values)

    def to_dict(self):
        return dict(zip(self._index, self._values))

    def unique(self):
        out = []
        for v in self._values:
            if v not in out:
                out.append(v)
        return NDArr(out) if all(isinstance(v, (int, float)) for v in out) and out else out

    def any(self):
        return any(bool(v) for v in self._values)

    def all(self):
        return all(bool(v) for v in self._values)

    def sum(self):
        return sum(self._values)

    def max(self):
        return max(self._values)

    def min(self):
        return min(self._values)

    def groupby(self, by):
        """group the values by the labels `by` gives to this series' index (another series aligned by index, a mapping, or a list in index order)"""
        if isinstance(by, MiniSeries):
            lab = dict(zip(by._index, by._values))
            labels = []
            for k in self._index:
                if k not in lab:
                    raise Unsupported("groupby: key %r of the grouped series has no label" % (k,))
                labels.append(lab[k])
        elif isinstance(by, dict):
            labels = [by[k] for k in self._index]
        elif isinstance(by, (list, tuple)) and len(by) == len(self._index):
            labels = list(by)
        else:
            raise Unsupported("groupby(%r)" % (type(by).__name__,))
        return _GroupBy(self, labels)

    def get(self, key, default=None):
        return self._values[self._index.index(key)] if key in self._index else default

    def value_counts(self):
        order, counts = [], {}
        for v in self._values:
            if _isnan(v):
                continue
            if v not in counts:
                order.append(v)
                counts[v] = 0
            counts[v] += 1
        order.sort(key=lambda v: -counts[v])      # stable: ties keep first-appearance order
        return MiniSeries([counts[v] for v in order], order, name="count")

    def rename(self, name):
        if not isinstance(name, str):
            raise Unsupported("Series.rename with a mapping / function")
        return MiniSeries(list(self._values), list(self._index), name=name)

    def astype(self, t):
        f = int if t in (int, "int", "int64") else float if t in (float, "float", "float64") else None
        if f is None:
            raise Unsupported("astype(%r)" % (t,))
        if f is int and any(_isnan(v) for v in self._values):
            raise ValueError("Cannot convert non-finite values (NA or inf) to integer")
        return MiniSeries([f(v) for v in self._values], list(self._index), name=self.name)

    def fillna(self, v):
        return MiniSeries([v if _isnan(x) else x for x in self._values], list(self._index), name=self.name)

    def copy(self):
        return MiniSeries(list(self._values), list(self._index), name=self.name)

    def drop_duplicates(self):
        out_v, out_i = [], []
        for i, v in zip(self._index, self._values):
            if v not in out_v:
                out_v.append(v)
                out_i.append(i)
        return MiniSeries(out_v, out_i, name=self.name)


class MiniFrame(object):
    _sa_mock = True

    def __init__(self, data=None, index=None, columns=None, dtype=None):
        cols = {}
        if isinstance(data, MiniFrame):
            cols = {c: list(v) for c, v in data._cols.items()}
            index = list(data._index) if index is None else index
        elif isinstance(data, dict):
            n = None
            for c, v in data.items():
                if isinstance(v, MiniSeries):
                    v = list(v._values)
                elif isinstance(v, NDArr):
                    v = list(v.v)
                if isinstance(v, (list, tuple)):
                    n = len(v)
            if n is None:
                if index is None:
                    raise ValueError("If using all scalar values, you must pass an index")
                n = len(list(index))
            for c, v in data.items():
                if isinstance(v, MiniSeries):
                    v = list(v._values)
                elif isinstance(v, NDArr):
                    v = list(v.v)
                cols[c] = list(v) if isinstance(v, (list, tuple)) else [v] * n
        elif data is None:
            cols = {c: [] for c in (columns or [])}
        elif isinstance(data, (list, tuple)) and columns is not None:
            cols = {c: [row[j] for row in data] for j, c in enumerate(columns)}
        else:
            raise Unsupported("DataFrame(%r)" % type(data).__name__)
        self._cols = cols
        n = len(next(iter(cols.values()))) if cols else 0
        if any(len(v) != n for v in cols.values()):
            raise ValueError("All arrays must be of the same length")
        self._index = MiniIndex(index) if index is not None else MiniIndex(range(n))
        if len(self._index) != n and cols:
            raise ValueError("Length of values (%d) does not match length of index (%d)" % (n, len(self._index)))
        if dtype in (int, "int"):
            self._cols = {c: [int(x) for x in v] for c, v in self._cols.items()}

    def __repr__(self):
        return "<frame %s index=%s>" % (self._cols, list(self._index))

    def __len__(self):
        return len(self._index)

    @property
    def index(self):
        return self._index

    @index.setter
    def index(self, new):
        new = MiniIndex(new)
        if len(new) != len(self._index):
            raise ValueError("Length mismatch")
        self._index = new

    @property
    def columns(self):
        return MiniIndex(self._cols)

    @property
    def shape(self):
        return (len(self._index), len(self._cols))

    @property
    def empty(self):
        return len(self._index) == 0 or not self._cols

    def _rows(self, keep):
        out = MiniFrame({c: [v[i] for i in keep] for c, v in self._cols.items()}, index=[self._index[i] for i in keep]) if self._cols else MiniFrame()
        return out

    def __getitem__(self, key):
        if isinstance(key, str):
            if key not in self._cols:
                raise KeyError(key)
            return MiniSeries(list(self._cols[key]), list(self._index), name=key)
        if isinstance(key, MiniSeries) and all(isinstance(v, bool) for v in key._values):
            if len(key) != len(self):
                raise Unsupported("boolean mask of another length")
            return self._rows([i for i, m in enumerate(key._values) if m])
        if isinstance(key, (list, tuple)) and all(isinstance(k, str) for k in key):
            return MiniFrame({c: list(self._cols[c]) for c in key}, index=list(self._index))
        raise Unsupported("DataFrame[%r]" % (key,))

    def __setitem__(self, key, value):
        if not isinstance(key, str):
            raise Unsupported("DataFrame[%r] = ..." % (key,))
        if isinstance(value, MiniSeries) and not self._cols and len(self._index) == 0:
            self._index = MiniIndex(value._index)          # first column of an empty frame brings its index along
            value = list(value._values)
        elif isinstance(value, MiniSeries):
            value = [value[i] if i in value else NAN for i in self._index]
        elif not isinstance(value, (list, tuple)):
            value = [value] * len(self._index)
        self._cols[key] = list(value)

    def __contains__(self, key):
        return key in self._cols

    def _row(self, key, positional):
        if isinstance(key, tuple) and len(key) == 2:
            r, c = key
            row = self._row(r, positional)
            if isinstance(row, MiniSeries):
                return row._values[c] if positional and isinstance(c, int) else row[c]
            raise Unsupported("two-dimensional selection of several rows")
        if positional:
            if isinstance(key, slice):
                return self._rows(list(range(len(self._index)))[key])
            if not isinstance(key, int):
                raise Unsupported(".iloc[%r]" % (key,))
            if not -len(self._index) <= key < len(self._index):
                raise IndexError("single positional indexer is out-of-bounds")
            return MiniSeries([v[key] for v in self._cols.values()], list(self._cols), name=self._index[key])
        hits = [i for i, x in enumerate(self._index) if x == key]
        if not hits:
            raise KeyError(key)
        if len(hits) > 1:
            return self._rows(hits)
        return MiniSeries([v[hits[0]] for v in self._cols.values()], list(self._cols), name=key)

    def _set_row(self, key, value, positional):
        raise Unsupported("assignment through .loc / .iloc of a frame")

    @property
    def loc(self):
        return _Loc(self, False)

    @property
    def at(self):
        return _Loc(self, False)

    @property
    def iloc(self):
        return _Loc(self, True)

    @property
    def iat(self):
        return _Loc(self, True)

    def iterrows(self):
        return [(lab, self._row(i, True)) for i, lab in enumerate(self._index)]

    def duplicated(self):
        seen, out = [], []
        for i in range(len(self._index)):
            row = tuple(v[i] for v in self._cols.values())
            out.append(row in seen)
            if row not in seen:
                seen.append(row)
        return MiniSeries(out, list(self._index))

    def drop_duplicates(self, inplace=False):
        keep = [i for i, d in enumerate(self.duplicated()._values) if not d]
        new = self._rows(keep)
        if inplace:
            self._cols, self._index = new._cols, new._index
            return None
        return new

    def reset_index(self, drop=False, inplace=False):
        if not drop:
            raise Unsupported("reset_index(drop=False)")
        new = MiniFrame({c: list(v) for c, v in self._cols.items()})
        if inplace:
            self._cols, self._index = new._cols, new._index
            return None
        return new

    def copy(self):
        return MiniFrame(self)

    def fillna(self, v):
        return MiniFrame({c: [v if _isnan(x) else x for x in col] for c, col in self._cols.items()}, index=list(self._index))

    def astype(self, t):
        if t not in (int, "int", "int64"):
            raise Unsupported("astype(%r)" % (t,))
        if any(_isnan(x) for col in self._cols.values() for x in col):
            raise ValueError("Cannot convert non-finite values (NA or inf) to integer")
        return MiniFrame({c: [int(x) for x in col] for c, col in self._cols.items()}, index=list(self._index))

    def to_dict(self):
        return {c: dict(zip(self._index, v)) for c, v in self._cols.items()}


class Matrix(object):
    """2-d array made by np.array(list of equally long lists): only what building a DataFrame from it needs"""
    _sa_mock = True

    def __init__(self, rows):
        self.rows = [list(r) for r in rows]
        if len({len(r) for r in self.rows}) > 1:
            raise ValueError("setting an array element with a sequence. The requested array has an inhomogeneous shape (rows of different lengths)")

    @property
    def shape(self):
        return (len(self.rows), len(self.rows[0]) if self.rows else 0)

    def transpose(self):
        n = len(self.rows[0]) if self.rows else 0
        return Matrix([[r[j] for r in self.rows] for j in range(n)])

    @property
    def T(self):
        return self.transpose()


def frame_from(data=None, index=None, columns=None, dtype=None):
    """pd.DataFrame(...) of the stand-in world: a Matrix with index and column labels, or whatever MiniFrame takes"""
    if isinstance(data, Matrix):
        nrows, ncols = data.shape
        cols = list(columns) if columns is not None else list(range(ncols))
        idx = list(index) if index is not None else list(range(nrows))
        if data.rows and (ncols != len(cols) or nrows != len(idx)):
            raise ValueError("Shape of passed values is %s, indices imply %s" % ((nrows, ncols), (len(idx), len(cols))))
        if not data.rows and idx:
            # np.array([[], []]).transpose() has shape (0, n): no row although the index has entries
            raise ValueError("Shape of passed values is %s, indices imply %s" % ((0, len(cols)), (len(idx), len(cols))))
        return MiniFrame({c: [data.rows[i][j] for i in range(nrows)] for j, c in enumerate(cols)}, index=idx)
    return MiniFrame(data, index=index, columns=columns, dtype=dtype)


def concat(objs, axis=0):
    objs = list(objs)
    if axis != 1 or not all(isinstance(o, MiniSeries) for o in objs):
        raise Unsupported("pd.concat other than of series along axis=1")
    index = []
    for o in objs:
        for lab in o._index:
            if lab not in index:
                index.append(lab)
    cols = {}
    for k, o in enumerate(objs):
        d = dict(zip(o._index, o._values))
        cols[o.name if o.name is not None else k] = [d.get(lab, NAN) for lab in index]
    return MiniFrame(cols, index=index)


def pandas_namespace():
    from .concrete import Namespace
    return Namespace("pandas", Series=MiniSeries, DataFrame=frame_from, concat=concat, Index=MiniIndex, isna=_isnan, isnull=_isnan)
