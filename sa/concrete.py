"""E9 -- concrete evaluation of repository functions on small mock worlds.

A tree-walking evaluator for the Python subset the repository's procedural code uses (assignments, loops, comprehensions,
closures, classes with plain methods, try/except, generators run eagerly).  The *values* are ordinary Python data (ints, lists,
dicts, enum members) and mock objects supplied by the rule module (a mock network, mock numpy arrays, a mock CSR matrix ...);
the *code* is the parsed AST of /repo: nothing of the repository is ever imported, compiled or exec'd -- every operation is
carried out by this evaluator, on values it created itself or was handed by the rule.

A rule uses it to decide a semantic fact independent of the shape of the code: run the function on a finite family of mock
inputs and compare the observable effect with an independently computed expectation.

Failure modes are kept apart:
  * Unsupported (an ExtractError): the evaluator or a mock does not model a construct -> "could not analyse" (exit 2), never a verdict;
  * ProgramError: the interpreted program itself raised (KeyError, IndexError, explicit raise ...) -> the rule decides what that means.

Names are resolved the way Python does: locals, enclosing functions, the module's own top-level definitions and imports.  An import
is followed to (a) an override registered by the rule under its canonical dotted name, (b) a modelled stdlib module, (c) another
module of the repository (lazily interpreted), else it becomes an AutoMock: an inert placeholder that can be called, have
attributes read and set, but can never influence a decision (truth value, comparison, arithmetic, iteration raise Unsupported).
"""
import ast
import sys
import types as _types
import builtins as _bi
import collections
import itertools
import math
import operator
import os

from .src import ExtractError, unparse


class Unsupported(ExtractError):
    pass


class ProgramError(Exception):
    """the interpreted program raised `exc` (a real exception instance)."""

    def __init__(self, exc, lineno=None):
        Exception.__init__(self, "%s: %s" % (type(exc).__name__, exc))
        self.exc = exc
        self.lineno = lineno


class _Return(Exception):
    def __init__(self, value):
        self.value = value


class _Break(Exception):
    pass


class _Continue(Exception):
    pass


# exceptions of builtin operations that are behaviour of the interpreted program (given faithful mocks)
PROGRAM_EXC = (KeyError, IndexError, ZeroDivisionError, ValueError, StopIteration, AssertionError, RuntimeError, OverflowError)


# --------------------------------------------------------------------------------------------- inert placeholder
class AutoMock(object):
    """inert placeholder for something the analysis does not model; may be called / have attributes, may not decide anything."""
    _sa_mock = True

    def __init__(self, name):
        object.__setattr__(self, "_name", name)
        object.__setattr__(self, "_kids", {})

    def __repr__(self):
        return "<auto %s>" % self._name

    def __getattr__(self, a):
        if a.startswith("__"):
            raise AttributeError(a)
        k = self._kids
        if a not in k:
            k[a] = AutoMock(self._name + "." + a)
        return k[a]

    def __setattr__(self, a, v):
        self._kids[a] = v

    def __call__(self, *a, **k):
        return AutoMock(self._name + "()")

    def _no(self, *a, **k):
        raise Unsupported("a decision depends on the unmodelled value %s" % self._name)

    __bool__ = __len__ = __iter__ = __eq__ = __ne__ = __lt__ = __le__ = __gt__ = __ge__ = __add__ = __radd__ = __sub__ = __rsub__ = _no
    __mul__ = __rmul__ = __truediv__ = __rtruediv__ = __getitem__ = __setitem__ = __contains__ = __int__ = __float__ = __index__ = _no
    __hash__ = object.__hash__


# --------------------------------------------------------------------------------------------- interpreted functions / classes
class Closure(object):
    def __init__(self, interp, node, ctx, frame=None, owner=None, bound=None, kind="function", cm=False):
        self.interp, self.node, self.ctx, self.frame, self.owner, self.bound, self.kind = interp, node, ctx, frame, owner, bound, kind
        self.name = getattr(node, "name", "<lambda>")
        self.cm = cm             # decorated with contextlib.contextmanager: a call yields a GenContext instead of running the body
        self.defaults = None     # (values of positional defaults, values of keyword-only defaults), evaluated ONCE: at the definition for a nested
                                 # function / lambda, at the first call for a module-level function or method (whose definition is not "run")

    def __repr__(self):
        return "<function %s>" % self.name

    def bind(self, obj):
        c = Closure(self.interp, self.node, self.ctx, self.frame, self.owner, obj, self.kind, self.cm)
        c.defaults = self.defaults
        return c

    def eval_defaults(self):
        if self.defaults is None:
            it, a = self.interp, self.node.args
            if self.frame is None:
                cache = it.__dict__.setdefault("_fn_defaults", {})
                if id(self.node) not in cache:
                    dfr = Frame(self.ctx, None)
                    cache[id(self.node)] = ([it.ev(d, dfr) for d in a.defaults], [None if d is None else it.ev(d, dfr) for d in a.kw_defaults])
                self.defaults = cache[id(self.node)]
            else:
                dfr = Frame(self.ctx, self.frame)
                self.defaults = ([it.ev(d, dfr) for d in a.defaults], [None if d is None else it.ev(d, dfr) for d in a.kw_defaults])
        return self.defaults

    def __eq__(self, o):
        return isinstance(o, Closure) and o.node is self.node and o.bound is self.bound

    def __hash__(self):
        return hash((id(self.node), id(self.bound)))

    def __call__(self, *args, **kwargs):
        return self.interp.call_closure(self, list(args), dict(kwargs))


def _is_contextmanager(fn):
    return any((isinstance(d, ast.Name) and d.id == "contextmanager") or (isinstance(d, ast.Attribute) and d.attr == "contextmanager") for d in fn.decorator_list)


class _GenAbort(BaseException):
    """thrown into a suspended context-manager generator when the analysis is abandoned."""


class GenContext(object):
    """The value of calling a function decorated with contextlib.contextmanager.  __enter__ runs the generator body up to its first `yield`
    (whose value is bound to `as`), __exit__ resumes it there -- re-raising the exception of the with-body at the yield, so a try / finally or
    try / except around the yield behaves as in Python -- and requires it to finish.  The body is interpreted in a helper thread that runs
    only while the evaluating thread waits for it (strict hand-over), so the interpreter's state is never used concurrently."""
    _sa_mock = True

    def __init__(self, interp, closure, args, kwargs):
        import queue
        self.interp, self.closure, self.args, self.kwargs = interp, closure, args, kwargs
        self.to_main, self.to_gen = queue.Queue(), queue.Queue()
        self.state = "new"

    def __repr__(self):
        return "<context manager %s>" % self.closure.name

    # -- generator side
    def _body(self):
        try:
            self.interp.call_closure(self.closure, self.args, self.kwargs, suspender=self)
            self.to_main.put(("done", None))
        except BaseException as e:
            self.to_main.put(("error", e))

    def on_yield(self, value):
        self.to_main.put(("yield", value))
        thrown = self.to_gen.get()
        if thrown is not None:
            raise thrown
        return None

    # -- evaluating side
    def enter(self):
        import threading
        if self.state != "new":
            raise ProgramError(RuntimeError("context manager %s entered twice" % self.closure.name))
        depth = self.interp.depth
        t = threading.Thread(target=self._body, daemon=True)
        t.start()
        what, v = self.to_main.get()
        if what == "yield":
            self.state = "suspended"
            return v
        self.state = "finished"
        self.interp.depth = depth
        if what == "error":
            raise v
        raise ProgramError(RuntimeError("generator %s didn't yield" % self.closure.name))

    def exit(self, pe):
        """resume after the with-body (pe: the ProgramError it raised, or None); -> True if the exception is suppressed."""
        if self.state != "suspended":
            return False
        self.to_gen.put(pe)
        what, v = self.to_main.get()
        if what == "yield":
            self.abort()
            raise ProgramError(RuntimeError("generator %s didn't stop" % self.closure.name))
        self.state = "finished"
        if what == "error":
            if v is pe:
                return False                  # the generator let the body's exception through
            raise v
        return pe is not None                 # finished normally: an exception thrown in was handled by the generator

    def abort(self):
        if self.state == "suspended":
            self.state = "finished"
            depth = self.interp.depth
            self.to_gen.put(_GenAbort())
            self.to_main.get()
            self.interp.depth = depth


class ClassRef(object):
    """a class defined in the repository (plain methods, single inheritance chain through names of the same world)."""

    def __init__(self, interp, node, ctx):
        self.interp, self.node, self.ctx = interp, node, ctx
        self.name = node.name
        self._bases = None
        self._members = None

    def __repr__(self):
        return "<class %s>" % self.name

    def bases(self):
        if self._bases is None:
            fr = Frame(self.ctx)
            self._bases = [self.interp.ev(b, fr) for b in self.node.bases]
        return self._bases

    def members(self):
        if self._members is None:
            m = {}
            for s in self.node.body:
                if isinstance(s, ast.FunctionDef):
                    decos = [d.id if isinstance(d, ast.Name) else (d.attr if isinstance(d, ast.Attribute) else "?") for d in s.decorator_list]
                    kind = "function"
                    cm = False
                    abstract = False
                    for d in decos:
                        if d in ("abstractmethod", "abstractproperty"):
                            abstract = True           # only a mark: enforced at instantiation when the hierarchy uses ABCMeta
                            if d == "abstractproperty":
                                kind = "property"
                        elif d in ("staticmethod", "classmethod", "property"):
                            kind = d
                        elif d == "setter":
                            kind = "setter"
                        elif d == "contextmanager":
                            cm = True
                        else:
                            kind = "unsupported:" + d
                    if kind == "setter":
                        m[s.name + ".setter"] = Closure(self.interp, s, self.ctx, None, self, None, kind)
                    else:
                        m[s.name] = Closure(self.interp, s, self.ctx, None, self, None, kind, cm)
                        if abstract:
                            self.__dict__.setdefault("_abstract", set()).add(s.name)
                elif isinstance(s, ast.Assign) and len(s.targets) == 1 and isinstance(s.targets[0], ast.Name):
                    m[s.targets[0].id] = ("expr", s.value)
                elif isinstance(s, ast.ClassDef):          # nested class (PatternRegistry.DefaultPattern): a class-level attribute
                    m[s.name] = ClassRef(self.interp, s, self.ctx)
            self._members = m
        return self._members

    def enum_kind(self):
        """'IntEnum' / 'Enum' when the class derives directly from the (unmodelled) enum module's class of that name, else None"""
        for b in self.bases():
            nm = getattr(b, "_name", None) if isinstance(b, AutoMock) else getattr(b, "__name__", None)
            if isinstance(nm, str) and nm.split(".")[-1] in ("IntEnum", "Enum", "IntFlag"):
                return nm.split(".")[-1]
        return None

    def find(self, name):
        """-> (member, defining ClassRef) following the bases; (None, None) if not found; raises Unsupported for a non-repository base."""
        m = self.members()
        if name in m:
            return m[name], self
        for b in self.bases():
            if isinstance(b, ClassRef):
                r, c = b.find(name)
                if r is not None:
                    return r, c
            elif b is object:
                continue
            else:
                raise Unsupported("class %s: attribute %s would come from the unmodelled base %r" % (self.name, name, b))
        return None, None

    def mro(self):
        """linearisation of a single-inheritance chain of repository classes (ends with object)."""
        out, c = [], self
        while isinstance(c, ClassRef):
            out.append(c)
            bs = [b for b in c.bases() if b is not object]
            if len(bs) > 1 or (bs and not isinstance(bs[0], ClassRef)):
                raise Unsupported("__mro__ of %s: multiple or unmodelled bases" % self.name)
            c = bs[0] if bs else None
        return tuple(out) + (object,)

    def is_sub(self, other):
        if other is self:
            return True
        return any((isinstance(b, ClassRef) and b.is_sub(other)) or b is other for b in self.bases())

    def uses_abcmeta(self):
        c = self
        while isinstance(c, ClassRef):
            for kw in c.node.keywords:
                if kw.arg == "metaclass" and ast.unparse(kw.value).endswith("ABCMeta"):
                    return True
            for b in c.node.bases:
                t = ast.unparse(b)
                if "ABCMeta" in t or t in ("abc.ABC", "ABC"):
                    return True
            nxt = [b for b in c.bases() if isinstance(b, ClassRef)]
            c = nxt[0] if nxt else None
        return False

    def abstract_names(self):
        """names whose most derived definition in this class's chain is marked abstract"""
        names, c = [], self
        while isinstance(c, ClassRef):
            c.members()
            names += list(c.__dict__.get("_abstract", ()))
            nxt = [b for b in c.bases() if isinstance(b, ClassRef)]
            c = nxt[0] if nxt else None
        out = []
        for nm in sorted(set(names)):
            m, d = self.find(nm)
            if d is not None and nm in d.__dict__.get("_abstract", ()):
                out.append(nm)
        return out

    def __call__(self, *args, **kwargs):
        if self.__dict__.get("_abc_checked") is None:
            try:
                self._abc_checked = self.abstract_names() if self.uses_abcmeta() else []
            except Unsupported:
                self._abc_checked = []
        if self._abc_checked:
            raise ProgramError(TypeError("Can't instantiate abstract class %s with abstract method%s %s" % (self.name, "s" if len(self._abc_checked) > 1 else "", ", ".join(self._abc_checked))))
        inst = Instance(self)
        init, _ = self.find("__init__")
        if init is not None:
            init.bind(inst)(*args, **kwargs)
        elif args or kwargs:
            raise Unsupported("class %s has no __init__ but is given arguments" % self.name)
        return inst


def build_real_enum(interp, cref):
    """a repository class whose base is a REAL enum class (the world maps `enum` to the stdlib module): a real Enum with the same members, whose methods,
    properties and class methods run the repository's code through the interpreter.  None when the class is not such an enum."""
    import enum as _enum
    try:
        bases = cref.bases()
    except Exception:
        return None
    real_bases = [b for b in bases if isinstance(b, type) and issubclass(b, _enum.Enum)]
    if not real_bases or len(bases) != 1:
        return None
    base = real_bases[0]
    ns = _enum.EnumMeta.__prepare__(cref.name, (base,))
    fr = Frame(cref.ctx)

    def method(cl):
        def f(self_, *a, **k):
            return interp.call(cl.bind(self_), list(a), k)
        f.__name__ = cl.name
        return f
    aliases = []
    for st in cref.node.body:
        if isinstance(st, ast.Assign) and len(st.targets) == 1 and isinstance(st.targets[0], ast.Name):
            nm = st.targets[0].id
            if isinstance(st.value, ast.Name) and any(isinstance(x, ast.FunctionDef) and x.name == st.value.id for x in cref.node.body):
                aliases.append((nm, st.value.id))           # __call__ = func
                continue
            ns[nm] = interp.ev(st.value, fr)
        elif isinstance(st, ast.FunctionDef):
            decos = [d.id if isinstance(d, ast.Name) else (d.attr if isinstance(d, ast.Attribute) else "?") for d in st.decorator_list]
            cl = Closure(interp, st, cref.ctx, None, cref, None, "function")
            if "setter" in decos:
                continue
            if "property" in decos:
                ns[st.name] = property(method(cl))
            elif "classmethod" in decos:
                ns[st.name] = classmethod(method(cl))
            elif "staticmethod" in decos:
                ns[st.name] = staticmethod(lambda *a, _cl=cl, **k: interp.call(_cl, list(a), k))
            elif decos:
                raise Unsupported("enum class %s: method %s carries the decorator %s" % (cref.name, st.name, decos))
            else:
                ns[st.name] = method(cl)
        elif isinstance(st, ast.Expr) and isinstance(st.value, ast.Constant):
            continue
        elif isinstance(st, ast.Pass):
            continue
        else:
            raise Unsupported("enum class %s: statement %s in the class body" % (cref.name, type(st).__name__))
    for nm, target in aliases:
        ns[nm] = ns[target]
    cls = _enum.EnumMeta(cref.name, (base,), ns)
    cls._sa_mock = True          # members accept the attributes their own __init__ sets
    cls._sa_strict_program = True   # ... and lack every other attribute for real (hasattr(member, 'to_ref') is False, not `could not analyse`)
    cls._sa_repo_enum = cref.name
    return cls


def build_real_exception(interp, cref):
    """a repository class derived from a builtin exception type (directly or through another such repository class): a real exception class whose methods run
    the repository's code through the interpreter, so that it can be raised, caught by `except`, and carries .args / str() like the real thing"""
    try:
        bases = cref.bases()
    except Exception:
        return None
    if not bases or not all(isinstance(b, type) and issubclass(b, BaseException) for b in bases):
        return None
    ns = {}
    fr = Frame(cref.ctx)

    def method(cl):
        def f(self_, *a, **k):
            return interp.call(cl.bind(self_), list(a), k)
        f.__name__ = cl.name
        return f
    for st in cref.node.body:
        if isinstance(st, ast.FunctionDef):
            decos = [d.id if isinstance(d, ast.Name) else (d.attr if isinstance(d, ast.Attribute) else "?") for d in st.decorator_list]
            cl = Closure(interp, st, cref.ctx, None, cref, None, "function")
            if "property" in decos:
                ns[st.name] = property(method(cl))
            elif "classmethod" in decos:
                ns[st.name] = classmethod(method(cl))
            elif "staticmethod" in decos:
                ns[st.name] = staticmethod(lambda *a, _cl=cl, **k: interp.call(_cl, list(a), k))
            elif decos:
                raise Unsupported("exception class %s: method %s carries the decorator %s" % (cref.name, st.name, decos))
            else:
                ns[st.name] = method(cl)
        elif isinstance(st, ast.Assign) and len(st.targets) == 1 and isinstance(st.targets[0], ast.Name):
            ns[st.targets[0].id] = interp.ev(st.value, fr)
        elif isinstance(st, (ast.Pass, ast.Expr)):
            continue
        else:
            raise Unsupported("exception class %s: statement %s in the class body" % (cref.name, type(st).__name__))
    ns["_sa_mock"] = True
    ns["_sa_strict_program"] = True
    ns["_sa_repo_class"] = cref.name
    return type(cref.name, tuple(bases), ns)


class IntEnumMember(int):
    """value of a member of a repository class derived from enum.IntEnum (or an int-valued enum.Enum): compares and hashes as its int"""
    _sa_mock = True

    @classmethod
    def make(cls, v, name, owner):
        o = int.__new__(cls, v)
        o.value, o.name, o._owner = int(v), name, owner
        return o

    def __repr__(self):
        return "<%s.%s: %d>" % (self._owner, self.name, int(self))


class Instance(object):
    _sa_mock = True

    def __init__(self, cls):
        object.__setattr__(self, "_cls", cls)
        object.__setattr__(self, "_attrs", {})

    def __repr__(self):
        m = self._sa_special("__repr__")
        if m is not None and not object.__getattribute__(self, "_attrs").get("_sa_in_repr"):
            try:
                r = m()
                if isinstance(r, str):
                    return r
            except Exception:
                pass
        return "<%s instance>" % self._cls.name

    def __str__(self):
        m = self._sa_special("__str__")
        if m is not None:
            try:
                r = m()
                if isinstance(r, str):
                    return r
            except Exception:
                pass
        return self.__repr__()

    def __getattr__(self, a):            # only used by Python-side helpers of the rules
        if a in self._attrs:
            return self._attrs[a]
        raise AttributeError(a)

    def __setattr__(self, a, v):
        self._attrs[a] = v

    # -- Python-level protocol of an instance of a repository class: when the class defines the special method it is run through the interpreter, so that the
    #    host's own sorted() / set() / dict keys / `in` on containers behave as they would for the real object
    def _sa_special(self, name):
        cls = object.__getattribute__(self, "_cls")
        try:
            m, _c = cls.find(name)
        except Exception:
            return None
        if isinstance(m, Closure) and m.kind == "function":
            return m.bind(self)
        return None

    def __lt__(self, other):
        m = self._sa_special("__lt__")
        return m(other) if m is not None else NotImplemented

    def __le__(self, other):
        m = self._sa_special("__le__")
        return m(other) if m is not None else NotImplemented

    def __gt__(self, other):
        m = self._sa_special("__gt__")
        return m(other) if m is not None else NotImplemented

    def __ge__(self, other):
        m = self._sa_special("__ge__")
        return m(other) if m is not None else NotImplemented

    def __eq__(self, other):
        if other is self:
            return True
        m = self._sa_special("__eq__")
        if m is None:
            return NotImplemented
        r = m(other)
        return r if r is NotImplemented else bool(r)

    def __ne__(self, other):
        r = self.__eq__(other)
        return r if r is NotImplemented else not r

    def __hash__(self):
        cls = object.__getattribute__(self, "_cls")
        try:
            chain = [c for c in cls.mro() if isinstance(c, ClassRef)]
        except Exception:
            chain = [cls]
        for c in chain:                  # Python: the first class of the MRO defining __eq__ or __hash__ decides; __eq__ alone makes instances unhashable
            mem = c.members()
            if "__hash__" in mem:
                m = mem["__hash__"]
                if isinstance(m, Closure):
                    return m.bind(self)()
                raise TypeError("unhashable type: '%s'" % cls.name)
            if "__eq__" in mem:
                raise TypeError("unhashable type: '%s'" % cls.name)
        return object.__hash__(self)

    def __bool__(self):
        return self._cls.interp.truth(self)

    # container protocol for Python-side helpers of the rules (len(x), iteration, `in`): through the class's own special methods, as the interpreter does
    def __len__(self):
        m = self._sa_special("__len__")
        if m is None:
            raise TypeError("object of type '%s' has no len()" % self._cls.name)
        return m()

    def __iter__(self):
        return iter(self._cls.interp.iterate(self))

    def __contains__(self, item):
        return bool(self._cls.interp.compare(ast.In(), item, self, None))


class SuperProxy(object):
    def __init__(self, inst, start):
        self.inst, self.start = inst, start


class Frame(object):
    def __init__(self, ctx, parent=None, owner=None):
        self.ctx = ctx
        self.parent = parent
        self.env = {}
        self.owner = owner
        self.nonlocals = set()
        self.globals_ = set()
        self.yields = None
        self.suspender = None    # GenContext whose generator body this frame runs (a `yield` here suspends instead of collecting)

    def lookup(self, name):
        f = self
        while f is not None:
            if name in f.env:
                return True, f.env[name]
            f = f.parent
        return False, None


# --------------------------------------------------------------------------------------------- module context / world
class ModCtx(object):
    """name space of one repository module: top-level definitions, imports and simple constants, evaluated lazily."""

    def __init__(self, world, rel):
        self.world = world
        self.rel = rel
        self.modname = rel[:-3].replace("/", ".")
        self.is_pkg = rel.endswith("/__init__.py")
        if self.is_pkg:
            self.modname = self.modname[:-len(".__init__")]
        self.tree = world.repo.tree(rel)
        self.cache = {}
        self.bindings = None
        self.written = {}

    def _index(self):
        if self.bindings is not None:
            return
        b = {}

        def visit(body):
            for s in body:
                if isinstance(s, (ast.FunctionDef, ast.ClassDef)):
                    b[s.name] = s
                elif isinstance(s, ast.Import):
                    for a in s.names:
                        b[(a.asname or a.name.split(".")[0])] = ("import", a.name, a.asname)
                elif isinstance(s, ast.ImportFrom):
                    for a in s.names:
                        b.setdefault(a.asname or a.name, ("from", s.module, s.level, a.name))
                elif isinstance(s, ast.Assign):
                    for t in s.targets:
                        if isinstance(t, ast.Name):
                            prev = b.get(t.id)
                            if isinstance(prev, tuple) and prev[0] in ("expr", "seq") and any(isinstance(x, ast.Name) and x.id == t.id for x in ast.walk(s.value)):
                                # a re-binding that reads the previous value (x = x.union(..)): the bindings are evaluated in module order
                                b[t.id] = ("seq", (list(prev[1]) if prev[0] == "seq" else [("=", prev[1])]) + [("=", s.value)])
                            else:
                                b[t.id] = ("expr", s.value)
                elif isinstance(s, ast.AugAssign) and isinstance(s.target, ast.Name):
                    prev = b.get(s.target.id)
                    if isinstance(prev, tuple) and prev[0] in ("expr", "seq"):
                        b[s.target.id] = ("seq", (list(prev[1]) if prev[0] == "seq" else [("=", prev[1])]) + [(s.op, s.value)])
                elif isinstance(s, ast.AnnAssign) and isinstance(s.target, ast.Name) and s.value is not None:
                    b[s.target.id] = ("expr", s.value)
                elif isinstance(s, ast.Try):
                    visit(s.body)
                elif isinstance(s, ast.If):
                    visit(s.body)
        visit(self.tree.body)
        self.bindings = b

    def package(self, level):
        parts = self.modname.split(".")
        if not self.is_pkg:
            parts = parts[:-1]
        if level > 1:
            parts = parts[:len(parts) - (level - 1)]
        return ".".join(parts)

    def has(self, name):
        self._index()
        return name in self.bindings or name in self.written

    def lookup(self, name):
        if name in self.written:
            return self.written[name]
        if name in self.cache:
            return self.cache[name]
        self._index()
        if name == "__name__":
            return self.modname
        b = self.bindings[name]
        it = self.world.interp
        ov = self.world.override(self.modname + "." + name)
        if ov is not _MISSING:
            v = ov
        elif isinstance(b, ast.FunctionDef):
            v = Closure(it, b, self, cm=_is_contextmanager(b))
        elif isinstance(b, ast.ClassDef):
            v = ClassRef(it, b, self)
            real = build_real_enum(it, v) or build_real_exception(it, v)
            if real is not None:
                v = real
        elif b[0] == "import":
            v = self.world.resolve(b[1] if b[2] else b[1].split(".")[0])
        elif b[0] == "from":
            mod = b[1] or ""
            if b[2]:
                base = self.package(b[2])
                mod = base + ("." + mod if mod else "")
            v = self.world.resolve(mod + "." + b[3])
        elif b[0] == "seq":
            v = None
            try:
                for k, (op, val) in enumerate(b[1]):
                    if k:
                        self.cache[name] = v          # the value bound so far is what the next binding reads
                    nv = it.ev(val, Frame(self))
                    v = nv if op == "=" else it.binop(it._IBIN, op, v, nv, val)
            finally:
                self.cache.pop(name, None)
        else:
            v = it.ev(b[1], Frame(self))
        self.cache[name] = v
        return v


class RepoModule(object):
    """a module (or package __init__) of the repository, seen as a value."""
    _sa_mock = True

    def __init__(self, ctx):
        self._ctx = ctx

    def __repr__(self):
        return "<module %s>" % self._ctx.modname


class Namespace(object):
    """a modelled module: plain attributes."""
    _sa_mock = True

    def __init__(self, name, **kw):
        self._name = name
        self.__dict__.update(kw)

    def __repr__(self):
        return "<namespace %s>" % self._name


_MISSING = object()


class World(object):
    def __init__(self, repo, overrides=None, fuel=3000000):
        self.repo = repo
        self.overrides = dict(overrides or {})
        self.modules = {}
        self.ctxs = {}
        self.interp = Interp(self, fuel)
        self.automocks = {}
        # the arithmetic functions of the `operator` module follow the operator protocol of repository classes (operator.mul(x, y) is x * y)
        op = self.overrides.get("operator")
        if isinstance(op, Namespace) and not getattr(op, "_sa_interp_bound", False):
            it = self.interp
            arith = {"add": ast.Add, "sub": ast.Sub, "mul": ast.Mult, "truediv": ast.Div, "floordiv": ast.FloorDiv, "mod": ast.Mod, "pow": ast.Pow}
            bound = {k: getattr(op, k) for k in dir(op) if not k.startswith("_")}
            for nm, node_cls in arith.items():
                bound[nm] = (lambda a, b, _c=node_cls: it.binop(it._BIN, _c(), a, b, None))
            bound["neg"] = lambda a: (it._dunder(a, "__neg__")() if isinstance(a, Instance) and it._dunder(a, "__neg__") is not None else -a)
            ns = Namespace("operator", **bound)
            ns._sa_interp_bound = True
            self.overrides["operator"] = ns

    # -- registry
    def override(self, dotted_name):
        return self.overrides.get(dotted_name, _MISSING)

    def ctx(self, rel):
        if rel not in self.ctxs:
            self.ctxs[rel] = ModCtx(self, rel)
        return self.ctxs[rel]

    def _repo_rel(self, dotted_name):
        p = dotted_name.replace(".", "/")
        for rel in (p + ".py", p + "/__init__.py"):
            if self.repo.exists(rel):
                return rel
        return None

    def resolve(self, dotted_name):
        v = self.override(dotted_name)
        if v is not _MISSING:
            return v
        if dotted_name in self.modules:
            return self.modules[dotted_name]
        rel = self._repo_rel(dotted_name)
        if rel is not None:
            m = RepoModule(self.ctx(rel))
            self.modules[dotted_name] = m
            return m
        if "." in dotted_name:
            head, last = dotted_name.rsplit(".", 1)
            parent = self.resolve(head)
            if isinstance(parent, AutoMock):
                return getattr(parent, last)
            return self.interp.getattr_(parent, last)
        if dotted_name not in self.automocks:
            self.automocks[dotted_name] = AutoMock(dotted_name)
        return self.automocks[dotted_name]

    # -- entry points
    def function(self, rel, qual):
        """the callable for a module-level function 'f' or a class 'C' of a repository module"""
        ctx = self.ctx(rel)
        if not ctx.has(qual):
            raise ExtractError("%s not defined in %s" % (qual, rel))
        return ctx.lookup(qual)


# --------------------------------------------------------------------------------------------- builtins the evaluator offers
class MethodTypeMarker(object):
    """types.MethodType of the interpreted world: a bound method of a repository class (a bound Closure) or a real bound method"""


class FunctionTypeMarker(object):
    """types.FunctionType of the interpreted world"""


def _isinstance(interp):
    def f(obj, cls):
        def flat(c_):
            if isinstance(c_, tuple):
                for x_ in c_:
                    for y_ in flat(x_):
                        yield y_
            else:
                yield c_
        classes = tuple(flat(cls))
        for c in classes:
            if c is MethodTypeMarker:
                if (isinstance(obj, Closure) and obj.bound is not None) or isinstance(obj, _types.MethodType):
                    return True
                continue
            if c is FunctionTypeMarker:
                if (isinstance(obj, Closure) and obj.bound is None) or isinstance(obj, _types.FunctionType):
                    return True
                continue
            if isinstance(c, ClassRef):
                if isinstance(obj, Instance):
                    if obj._cls.is_sub(c):
                        return True
                elif getattr(obj, "_sa_foreign", False):
                    continue          # a stand-in for an object of a NON-repository type (a compiled extension object): never an instance of a repository class
                elif getattr(obj, "_sa_mock", False):
                    raise Unsupported("isinstance of the mock %r against the repository class %s (no mock registered for it)" % (obj, c.name))
            elif isinstance(c, AutoMock) and c._name.split(".")[0] in ("typing", "collections") and c._name.split(".")[-1] in ("Iterable", "Sized", "Callable"):
                # structural ABCs of typing / collections.abc: decided by the protocol method
                meth = {"Iterable": "__iter__", "Sized": "__len__", "Callable": "__call__"}[c._name.split(".")[-1]]
                if isinstance(obj, Instance):
                    if interp._dunder(obj, meth) is not None:
                        return True
                elif isinstance(obj, (Closure, ClassRef)):
                    if meth == "__call__":
                        return True
                elif not isinstance(obj, AutoMock) and hasattr(obj, meth):
                    return True
            elif isinstance(c, AutoMock):
                import enum as _enum_
                if isinstance(obj, (int, float, str, bytes, list, tuple, dict, set, frozenset, type(None), Instance, Closure, _enum_.Enum)) or type(obj).__module__ == "numpy":
                    continue          # a plain value or an object of a repository class is not an instance of a class of an unmodelled library
                raise Unsupported("isinstance against the unmodelled class %s" % c._name)
            elif isinstance(c, type):
                if isinstance(obj, c):
                    return True
            else:
                raise Unsupported("isinstance against %r" % (c,))
        return False
    return f


_EXC = {n: getattr(_bi, n)
        for n in ("Exception", "KeyError", "IndexError", "ValueError", "RuntimeError", "TypeError", "AttributeError", "ZeroDivisionError",
                  "StopIteration", "AssertionError", "NotImplementedError", "ImportError", "OverflowError", "LookupError", "ArithmeticError",
                  "UserWarning", "DeprecationWarning", "Warning", "FutureWarning", "RuntimeWarning")}

_PURE = {n: getattr(_bi, n)
         for n in ("len", "range", "int", "float", "bool", "str", "any", "all", "sum", "min", "max", "abs", "sorted", "reversed", "enumerate", "zip",
                   "list", "dict", "set", "tuple", "frozenset", "complex", "round", "iter", "next", "map", "filter", "repr", "divmod", "pow", "object", "id", "callable", "hash", "ord", "chr", "bin", "hex", "oct", "format", "bytes", "slice", "ascii")}


_ITER_CONSUMERS = ("list", "tuple", "set", "frozenset", "sorted", "sum", "any", "all", "min", "max", "enumerate", "zip", "reversed", "iter", "map", "filter")


class Interp(object):
    def __init__(self, world, fuel):
        self.world = world
        self.fuel = fuel
        self.depth = 0
        self.builtins = dict(_PURE)
        self.builtins.update(_EXC)
        self.builtins.update({"isinstance": _isinstance(self), "hasattr": self._hasattr, "getattr": self._getattr3, "setattr": self._setattr3, "delattr": lambda o, a: self.delattr_(o, a),
                              "print": lambda *a, **k: None, "True": True, "False": False, "None": None, "NotImplemented": NotImplemented,
                              "type": self._type, "issubclass": self._issubclass, "len": self._len, "dir": self._dir})

    # ---------------------------------------------------------------- operator protocol of repository classes
    def _dunder(self, obj, name):
        """the bound special method `name` an instance of a repository class defines (own or inherited from a repository class), else None."""
        if isinstance(obj, Instance):
            try:
                m, c = obj._cls.find(name)
            except Unsupported:
                if name in ("__setattr__", "__delattr__"):
                    return None       # an unmodelled base (collections.abc mix-in): attribute assignment is the plain one
                raise
            hops = 0
            while isinstance(m, tuple) and m[0] == "expr" and isinstance(m[1], ast.Name) and c is not None and hops < 4:
                m, c = c.find(m[1].id)          # class-level alias: __truediv__ = __div__
                hops += 1
            if isinstance(m, Closure) and m.kind == "function":
                return m.bind(obj)
        return None

    def _dir(self, o):
        """dir(obj) for an instance of a repository class: instance attributes and the members of its classes (no object dunders)"""
        if isinstance(o, Instance):
            names = set(o._attrs)
            todo, seen = [o._cls], []
            while todo:
                c = todo.pop(0)
                if c in seen or not isinstance(c, ClassRef):
                    continue
                seen.append(c)
                names |= {k for k in c.members() if not k.endswith(".setter")}
                todo.extend(c.bases())
            return sorted(names)
        if isinstance(o, (AutoMock, ClassRef, Closure, RepoModule)):
            raise Unsupported("dir(%r)" % (o,))
        return dir(o)

    def _len(self, o):
        m = self._dunder(o, "__len__")
        if m is not None:
            return m()
        return len(o)

    # ---------------------------------------------------------------- helpers exposed as builtins
    def _hasattr(self, o, a):
        try:
            self.getattr_(o, a)
            return True
        except ProgramError as e:
            if isinstance(e.exc, AttributeError):
                return False
            raise

    def _getattr3(self, o, a, *d):
        try:
            return self.getattr_(o, a)
        except ProgramError as e:
            if isinstance(e.exc, AttributeError) and d:
                return d[0]
            raise

    def _setattr3(self, o, a, v):
        self.setattr_(o, a, v)

    def _type(self, o):
        if isinstance(o, Instance):
            return o._cls
        if isinstance(o, AutoMock):
            raise Unsupported("type() of the unmodelled value %s" % o._name)
        return type(o)

    def _issubclass(self, a, b):
        bs = b if isinstance(b, tuple) else (b,)
        for c in bs:
            if isinstance(a, ClassRef):
                if isinstance(c, ClassRef) and a.is_sub(c):
                    return True
            elif isinstance(a, type) and isinstance(c, type) and issubclass(a, c):
                return True
        return False

    def tick(self, node=None):
        self.fuel -= 1
        if self.fuel <= 0:
            raise Unsupported("evaluation budget exhausted (non-terminating loop?) at line %s" % getattr(node, "lineno", "?"))

    # ---------------------------------------------------------------- attribute protocol
    def getattr_(self, obj, attr, node=None):
        if attr == "__version__" and isinstance(obj, RepoModule):
            v = self.world.override(obj._ctx.modname + ".__version__")
            if v is not _MISSING:
                return v
        if isinstance(obj, super):
            try:
                return getattr(obj, attr)         # the real super object of a repository enum / exception class
            except AttributeError as e:
                raise ProgramError(e, getattr(node, "lineno", None))
        if attr == "__dict__" and isinstance(obj, Instance):
            return obj._attrs           # the instance dictionary itself (options classes store through self.__dict__[name] = value)
        if attr.startswith("__") and attr not in ("__name__", "__class__") and not (attr == "__init__" and isinstance(obj, (Instance, ClassRef, SuperProxy))) \
                and not (attr == "__mro__" and isinstance(obj, ClassRef)):
            special = None
            if attr.endswith("__") and isinstance(obj, (Instance, SuperProxy)):
                # a special method DEFINED by a repository class, called by name (reg.__delitem__(k), super().__delitem__(k))
                for cr in ([obj._cls] if isinstance(obj, Instance) else [b for b in obj.start.bases() if isinstance(b, ClassRef)]):
                    m, _c = cr.find(attr)
                    if isinstance(m, Closure) and m.kind == "function":
                        special = m.bind(obj if isinstance(obj, Instance) else obj.inst)
                        break
                if special is None and isinstance(obj, SuperProxy) and attr in ("__setattr__", "__delattr__") and all(b is object or isinstance(b, ClassRef) for b in obj.start.bases()):
                    # super().__setattr__(name, value) falling through to object: the plain store / removal
                    inst_ = obj.inst
                    special = (lambda name, value: self.raw_setattr(inst_, name, value)) if attr == "__setattr__" else (lambda name: self.raw_delattr(inst_, name))
            elif attr in ("__iter__", "__len__", "__contains__", "__getitem__", "__setitem__", "__delitem__") and \
                    type(obj) in (dict, collections.OrderedDict, list, set, frozenset, tuple, str):
                special = getattr(obj, attr)      # d.__iter__() is iter(d) on a plain container
            if special is not None:
                return special
            raise Unsupported("access to special attribute %s" % attr)
        if isinstance(obj, Instance):
            if attr in obj._attrs:
                return obj._attrs[attr]
            if attr == "__class__":
                return obj._cls
            m, c = obj._cls.find(attr)
            if m is None:
                ga, _c = obj._cls.find("__getattr__")
                if isinstance(ga, Closure):
                    return ga.bind(obj)(attr)          # the class's own fallback for attributes that normal lookup does not find
                raise ProgramError(AttributeError("'%s' object has no attribute '%s'" % (obj._cls.name, attr)), getattr(node, "lineno", None))
            return self._member(m, c, obj)
        if isinstance(obj, ClassRef):
            if attr == "__name__":
                return obj.name
            if attr == "__mro__":
                return obj.mro()
            m, c = obj.find(attr)
            if m is None:
                raise ProgramError(AttributeError("class %s has no attribute %s" % (obj.name, attr)), getattr(node, "lineno", None))
            return self._member(m, c, None, obj)
        if isinstance(obj, SuperProxy):
            for b in obj.start.bases():
                if isinstance(b, ClassRef):
                    m, c = b.find(attr)
                    if m is not None:
                        return self._member(m, c, obj.inst)
                elif b is object:
                    if attr == "__init__":
                        return lambda *a, **k: None
                else:
                    raise Unsupported("super() reaches the unmodelled base %r" % (b,))
            raise ProgramError(AttributeError("super object has no attribute %s" % attr))
        if isinstance(obj, RepoModule):
            ctx = obj._ctx
            if ctx.has(attr):
                return ctx.lookup(attr)
            return self.world.resolve(ctx.modname + "." + attr) if ctx.is_pkg else self._missing_module_attr(ctx, attr)
        if isinstance(obj, AutoMock):
            return getattr(obj, attr)
        if isinstance(obj, Closure):
            if attr == "__name__":
                return obj.name
            raise Unsupported("attribute %s of a function" % attr)
        try:
            return getattr(obj, attr)
        except AttributeError:
            if getattr(obj, "_sa_mock", False) and not getattr(obj, "_sa_strict_program", False):
                raise Unsupported("mock %r does not model attribute %r" % (obj, attr))
            raise ProgramError(AttributeError("%r has no attribute %r" % (type(obj).__name__, attr)), getattr(node, "lineno", None))

    def _missing_module_attr(self, ctx, attr):
        v = self.world.override(ctx.modname + "." + attr)
        if v is not _MISSING:
            return v
        raise ProgramError(AttributeError("module %s has no attribute %s" % (ctx.modname, attr)))

    def _member(self, m, cls, inst, klass=None):
        if isinstance(m, tuple) and m[0] == "val":
            return m[1]                       # a class attribute assigned at run time (Counter.n_made += 1)
        if isinstance(m, tuple) and m[0] == "expr":
            vals = cls.__dict__.setdefault("_attr_values", {})
            if id(m[1]) not in vals:          # the class body runs once: a mutable class attribute is ONE object shared by all readers
                vals[id(m[1])] = self.ev(m[1], Frame(cls.ctx))
            v = vals[id(m[1])]
            kind = cls.enum_kind() if isinstance(cls, ClassRef) else None
            if kind is not None and isinstance(v, int) and not isinstance(v, bool) and not isinstance(v, IntEnumMember):
                # a member of an enum.IntEnum / enum.Enum class of the repository (OperationEnum.mul): an int that also answers .value / .name
                name = next((k for k, mm in cls.members().items() if mm is m), None)
                cache = cls.__dict__.setdefault("_enum_cache", {})
                if name not in cache:
                    cache[name] = IntEnumMember.make(v, name, cls.name)
                return cache[name]
            return v
        if isinstance(m, Closure):
            if m.kind.startswith("unsupported:"):
                raise Unsupported("method %s.%s carries the unmodelled decorator %s" % (cls.name, m.name, m.kind.split(":", 1)[1]))
            if m.kind == "staticmethod":
                return m
            if m.kind == "classmethod":
                return m.bind(inst._cls if inst is not None else klass)
            if m.kind == "property":
                if inst is None:
                    return m
                return m.bind(inst)()
            if inst is not None:
                return m.bind(inst)
            return m
        return m

    def setattr_(self, obj, attr, val):
        if attr.startswith("__"):
            raise Unsupported("store to special attribute %s" % attr)
        if isinstance(obj, Instance):
            hook = self._dunder(obj, "__setattr__")
            if hook is not None:
                hook(attr, val)           # a repository class that overrides attribute assignment (aml.Model registers what is assigned)
                return
            self.raw_setattr(obj, attr, val)
            return
        if isinstance(obj, AutoMock):
            setattr(obj, attr, val)
            return
        if isinstance(obj, ClassRef):
            prev = obj.members().get(attr)
            if isinstance(prev, Closure) or (prev is None and obj.find(attr)[0] is not None and isinstance(obj.find(attr)[0], Closure)):
                raise Unsupported("store to attribute %s of %r replaces a method" % (attr, obj))
            if obj.enum_kind() is not None:
                raise Unsupported("store to attribute %s of the enum class %r" % (attr, obj))
            obj.members()[attr] = ("val", val)
            return
        if isinstance(obj, (RepoModule, Closure)):
            raise Unsupported("store to attribute %s of %r" % (attr, obj))
        if getattr(obj, "_sa_mock", False):
            try:
                setattr(obj, attr, val)
            except AttributeError:
                raise Unsupported("mock %r does not allow storing attribute %r" % (obj, attr))
            return
        raise ProgramError(AttributeError("cannot set attribute %s of %s" % (attr, type(obj).__name__)))

    def raw_setattr(self, obj, attr, val):
        """object.__setattr__ on an instance of a repository class: property setters apply, else the instance dictionary"""
        m, c = obj._cls.find(attr + ".setter")
        if m is not None:
            m.bind(obj)(val)
            return
        obj._attrs[attr] = val

    def delattr_(self, obj, attr, node=None):
        if isinstance(obj, Instance):
            hook = self._dunder(obj, "__delattr__")
            if hook is not None:
                hook(attr)
                return
            self.raw_delattr(obj, attr, node)
            return
        raise Unsupported("del attribute of %r" % (obj,))

    def raw_delattr(self, obj, attr, node=None):
        if attr not in obj._attrs:
            raise ProgramError(AttributeError(attr), getattr(node, "lineno", None))
        del obj._attrs[attr]

    # ---------------------------------------------------------------- calls
    def call(self, f, args, kwargs, node=None):
        self.tick(node)
        if isinstance(f, (Closure, ClassRef)):
            return f(*args, **kwargs)
        if isinstance(f, AutoMock):
            return f(*args, **kwargs)
        if f is super:
            raise Unsupported("super")
        if isinstance(f, Instance):
            m = self._dunder(f, "__call__")
            if m is not None:
                return m(*args, **kwargs)           # an instance of a repository class that defines __call__ (wn.nodes(Tank))
        if not callable(f):
            raise ProgramError(TypeError("%r is not callable" % (f,)), getattr(node, "lineno", None))
        if f is str and len(args) == 1 and not kwargs and isinstance(args[0], Instance):
            m = self._dunder(args[0], "__str__") or self._dunder(args[0], "__repr__")      # str(obj) of a repository class: its own __str__
            if m is not None:
                return m()
        if any(isinstance(a, Instance) for a in args) and any(f is _PURE.get(n_) for n_ in _ITER_CONSUMERS):
            # list(obj) / sorted(obj) / set(obj) ... on an instance of a repository class that defines __iter__: iterate it by its own method
            args = [list(self.iterate(a, node)) if self._dunder(a, "__iter__") is not None else a for a in args]
        elif f is dict and len(args) == 1 and isinstance(args[0], Instance):
            # dict(obj): the mapping protocol (keys() + __getitem__) if the class has it, else an iterable of pairs
            kf, gi = self._dunder(args[0], "keys"), self._dunder(args[0], "__getitem__")
            if kf is not None and gi is not None:
                args = [[(k_, gi(k_)) for k_ in self.iterate(kf(), node)]]
            elif self._dunder(args[0], "__iter__") is not None:
                args = [list(self.iterate(args[0], node))]
        try:
            return f(*args, **kwargs)
        except (ProgramError, Unsupported, _Return, _Break, _Continue):
            raise
        except PROGRAM_EXC as e:
            raise ProgramError(e, getattr(node, "lineno", None))
        except TypeError as e:
            plain = all(isinstance(a, (int, float, str, bool, bytes, list, tuple, dict, set, frozenset, type(None))) for a in list(args) + list(kwargs.values()))
            if plain and any(f is v_ for v_ in _PURE.values()):
                raise ProgramError(e, getattr(node, "lineno", None))       # dict(3.5), int('x'): the program's own error, it may catch it
            raise Unsupported("call %s at line %s: %s: %s" % (unparse(node)[:80] if node is not None else f, getattr(node, "lineno", "?"), type(e).__name__, e))
        except AttributeError as e:
            raise Unsupported("call %s at line %s: %s: %s" % (unparse(node)[:80] if node is not None else f, getattr(node, "lineno", "?"), type(e).__name__, e))

    def call_closure(self, c, args, kwargs, suspender=None):
        if c.cm and suspender is None:
            return GenContext(self, c, list(args), dict(kwargs))
        self.depth += 1
        if self.depth > 60:
            self.depth -= 1
            raise Unsupported("recursion too deep in %s" % c.name)
        try:
            node = c.node
            fr = Frame(c.ctx, c.frame, c.owner)
            if c.bound is not None:
                args = [c.bound] + list(args)
            self.bind_args(node, args, kwargs, fr, c)
            if isinstance(node, ast.Lambda):
                return self.ev(node.body, fr)
            is_gen = _has_yield(node) and suspender is None
            if suspender is not None:
                fr.suspender = suspender
            if is_gen:
                fr.yields = []
            try:
                self.block(node.body, fr)
            except _Return as r:
                if is_gen:
                    return iter(fr.yields)
                return r.value
            if is_gen:
                return iter(fr.yields)
            return None
        finally:
            self.depth -= 1

    def bind_args(self, node, args, kwargs, fr, c):
        a = node.args
        params = [p.arg for p in a.posonlyargs + a.args]
        env = fr.env
        defaults, kw_defaults = c.eval_defaults()
        if len(args) > len(params):
            if a.vararg is None:
                raise ProgramError(TypeError("%s() takes %d positional arguments but %d were given" % (c.name, len(params), len(args))))
            env[a.vararg.arg] = tuple(args[len(params):])
            args = args[:len(params)]
        elif a.vararg is not None:
            env[a.vararg.arg] = ()
        for p, v in zip(params, args):
            env[p] = v
        extra = {}
        kwonly = [p.arg for p in a.kwonlyargs]
        for k, v in kwargs.items():
            if k in env and k in params:
                raise ProgramError(TypeError("%s() got multiple values for argument %r" % (c.name, k)))
            if k in params or k in kwonly:
                env[k] = v
            elif a.kwarg is not None:
                extra[k] = v
            else:
                raise ProgramError(TypeError("%s() got an unexpected keyword argument %r" % (c.name, k)))
        if a.kwarg is not None:
            env[a.kwarg.arg] = extra
        for p, d in zip(params[len(params) - len(defaults):], defaults):
            if p not in env:
                env[p] = d
        for p, d, dn in zip(kwonly, kw_defaults, a.kw_defaults):
            if p not in env and dn is not None:
                env[p] = d
        for p in params + kwonly:
            if p not in env:
                raise ProgramError(TypeError("%s() missing required argument %r" % (c.name, p)))

    # ---------------------------------------------------------------- expressions
    def ev(self, n, fr):
        m = getattr(self, "e_" + type(n).__name__, None)
        if m is None:
            raise Unsupported("expression %s at line %s" % (type(n).__name__, getattr(n, "lineno", "?")))
        return m(n, fr)

    def e_Constant(self, n, fr):
        return n.value

    def e_Name(self, n, fr):
        ok, v = fr.lookup(n.id)
        if ok:
            return v
        if fr.ctx is not None and fr.ctx.has(n.id):
            return fr.ctx.lookup(n.id)
        if n.id == "__name__" and fr.ctx is not None:
            return fr.ctx.modname
        if n.id in self.builtins:
            return self.builtins[n.id]
        if n.id == "super":
            return super
        raise ProgramError(NameError("name %r is not defined" % n.id), n.lineno)

    def e_Attribute(self, n, fr):
        if n.attr.startswith("__") and not n.attr.endswith("__"):
            return self._private_attr(self.ev(n.value, fr), n.attr, fr, n)
        return self.getattr_(self.ev(n.value, fr), n.attr, n)

    def _private_attr(self, obj, attr, fr, node):
        """read of a class-private name (`self.__subsets` inside class C is `_C__subsets`): resolved in the class whose method is running."""
        f = fr
        while f is not None and f.owner is None:
            f = f.parent
        owner = f.owner if f is not None else None
        if isinstance(owner, ClassRef) and isinstance(obj, (Instance, ClassRef)):
            mangled = "_%s%s" % (owner.name.lstrip("_"), attr)
            if isinstance(obj, Instance) and mangled in obj._attrs:
                return obj._attrs[mangled]
            cls = obj._cls if isinstance(obj, Instance) else obj
            if cls.is_sub(owner) and attr in owner.members():
                return self._member(owner.members()[attr], owner, obj if isinstance(obj, Instance) else None, cls)
        return self.getattr_(obj, attr, node)

    def e_Subscript(self, n, fr):
        base = self.ev(n.value, fr)
        key = self.ev(n.slice, fr)
        return self.getitem(base, key, n)

    def getitem(self, base, key, node=None):
        m = self._dunder(base, "__getitem__")
        if m is not None:
            return m(key)
        if isinstance(base, (AutoMock, Instance, ClassRef, Closure)):
            raise Unsupported("subscript of %r at line %s" % (base, getattr(node, "lineno", "?")))
        try:
            return base[key]
        except PROGRAM_EXC as e:
            raise ProgramError(e, getattr(node, "lineno", None))
        except TypeError as e:
            if base is None:
                raise ProgramError(e, getattr(node, "lineno", None))
            raise Unsupported("subscript %s: %s" % (unparse(node) if node is not None else base, e))

    def e_Slice(self, n, fr):
        return slice(self.ev(n.lower, fr) if n.lower is not None else None, self.ev(n.upper, fr) if n.upper is not None else None,
                     self.ev(n.step, fr) if n.step is not None else None)

    def _elts(self, elts, fr):
        out = []
        for e in elts:
            if isinstance(e, ast.Starred):
                out.extend(self.iterate(self.ev(e.value, fr), e))
            else:
                out.append(self.ev(e, fr))
        return out

    def e_Tuple(self, n, fr):
        return tuple(self._elts(n.elts, fr))

    def e_List(self, n, fr):
        return self._elts(n.elts, fr)

    def e_Set(self, n, fr):
        return set(self._elts(n.elts, fr))

    def e_Dict(self, n, fr):
        d = {}
        for k, v in zip(n.keys, n.values):
            if k is None:
                d.update(self.ev(v, fr))
            else:
                d[self.ev(k, fr)] = self.ev(v, fr)
        return d

    def e_JoinedStr(self, n, fr):
        out = []
        for p in n.values:
            if isinstance(p, ast.Constant):
                out.append(str(p.value))
            else:
                v = self.ev(p.value, fr)
                if p.conversion == 114:
                    v = repr(v)
                elif p.conversion == 115:
                    v = str(v)
                spec = self.ev(p.format_spec, fr) if p.format_spec is not None else ""
                try:
                    out.append(format(v, spec))
                except (TypeError, ValueError):
                    out.append(str(v))
        return "".join(out)

    def truth(self, v, node=None):
        if isinstance(v, AutoMock):
            raise Unsupported("truth value of the unmodelled value %s at line %s" % (v._name, getattr(node, "lineno", "?")))
        if isinstance(v, Instance):
            m, _ = v._cls.find("__bool__")
            m2, _ = v._cls.find("__len__")
            if m is not None and self._dunder(v, "__bool__") is not None:
                return bool(self._dunder(v, "__bool__")())        # the class's own __bool__
            if m is None and m2 is not None and self._dunder(v, "__len__") is not None:
                return self._dunder(v, "__len__")() != 0          # Python: no __bool__ -> len(x) != 0
            if m is not None or m2 is not None:
                raise Unsupported("truth value of an instance of %s (defines __bool__/__len__)" % v._cls.name)
            return True
        try:
            return bool(v)
        except ValueError as e:
            raise ProgramError(e, getattr(node, "lineno", None))

    def e_UnaryOp(self, n, fr):
        v = self.ev(n.operand, fr)
        if isinstance(n.op, ast.Not):
            return not self.truth(v, n)
        if isinstance(v, Instance):
            m = self._dunder(v, {ast.USub: "__neg__", ast.UAdd: "__pos__", ast.Invert: "__invert__"}.get(type(n.op), "?"))
            if m is None:
                raise ProgramError(TypeError("bad operand type for unary %s: %r" % (type(n.op).__name__, v)), getattr(n, "lineno", None))
            return m()
        self._plain(v, n)
        if isinstance(n.op, ast.USub):
            return -v
        if isinstance(n.op, ast.UAdd):
            return +v
        if isinstance(n.op, ast.Invert):
            return ~v
        raise Unsupported("unary operator")

    def _plain(self, v, node):
        if isinstance(v, (AutoMock, Instance, ClassRef, Closure, RepoModule)):
            raise Unsupported("operator applied to %r at line %s" % (v, getattr(node, "lineno", "?")))

    _BIN = {ast.Add: operator.add, ast.Sub: operator.sub, ast.Mult: operator.mul, ast.Div: operator.truediv, ast.FloorDiv: operator.floordiv,
            ast.Mod: operator.mod, ast.Pow: operator.pow, ast.BitAnd: operator.and_, ast.BitOr: operator.or_, ast.BitXor: operator.xor,
            ast.LShift: operator.lshift, ast.RShift: operator.rshift}
    _IBIN = {ast.Add: operator.iadd, ast.Sub: operator.isub, ast.Mult: operator.imul, ast.Div: operator.itruediv, ast.FloorDiv: operator.ifloordiv,
             ast.Mod: operator.imod, ast.Pow: operator.ipow, ast.BitAnd: operator.iand, ast.BitOr: operator.ior, ast.BitXor: operator.ixor,
             ast.LShift: operator.ilshift, ast.RShift: operator.irshift}

    _OPNAME = {ast.Add: "add", ast.Sub: "sub", ast.Mult: "mul", ast.Div: "truediv", ast.FloorDiv: "floordiv", ast.Mod: "mod", ast.Pow: "pow",
               ast.BitAnd: "and", ast.BitOr: "or", ast.BitXor: "xor", ast.LShift: "lshift", ast.RShift: "rshift"}

    def binop(self, table, op, a, b, node):
        if isinstance(a, Instance) or isinstance(b, Instance):
            # the operator protocol of repository classes: __iop__ (augmented form only), __op__ of the left operand, __rop__ of the right one
            nm = self._OPNAME.get(type(op))
            tried = []
            if nm is not None:
                if table is self._IBIN:
                    tried.append((a, "__i%s__" % nm, b))
                tried += [(a, "__%s__" % nm, b), (b, "__r%s__" % nm, a)]
            for obj, meth, arg in tried:
                m = self._dunder(obj, meth)
                if m is not None:
                    r = m(arg)
                    if r is not NotImplemented:
                        return r
            raise ProgramError(TypeError("unsupported operand type(s) for %s: %r and %r" % (type(op).__name__, a, b)), getattr(node, "lineno", None))
        self._plain(a, node)
        self._plain(b, node)
        f = table.get(type(op))
        if f is None:
            raise Unsupported("binary operator %s" % type(op).__name__)
        try:
            return f(a, b)
        except PROGRAM_EXC as e:
            raise ProgramError(e, getattr(node, "lineno", None))
        except TypeError as e:
            raise ProgramError(e, getattr(node, "lineno", None))

    def e_BinOp(self, n, fr):
        return self.binop(self._BIN, n.op, self.ev(n.left, fr), self.ev(n.right, fr), n)

    def e_BoolOp(self, n, fr):
        isand = isinstance(n.op, ast.And)
        v = None
        for x in n.values:
            v = self.ev(x, fr)
            t = self.truth(v, n)
            if isand and not t:
                return v
            if not isand and t:
                return v
        return v

    def e_IfExp(self, n, fr):
        return self.ev(n.body, fr) if self.truth(self.ev(n.test, fr), n) else self.ev(n.orelse, fr)

    def e_Compare(self, n, fr):
        left = self.ev(n.left, fr)
        last = len(n.ops) - 1
        for i, (op, rn) in enumerate(zip(n.ops, n.comparators)):
            right = self.ev(rn, fr)
            r = self.compare(op, left, right, n)
            if i < last and not self.truth(r, n):
                return r
            left = right
        return r

    def compare(self, op, a, b, node):
        if isinstance(op, ast.Is):
            return a is b
        if isinstance(op, ast.IsNot):
            return a is not b
        if isinstance(op, (ast.In, ast.NotIn)):
            m = self._dunder(b, "__contains__")
            if m is not None:
                r = self.truth(m(a), node)
                return r if isinstance(op, ast.In) else not r
            if isinstance(b, Instance):
                # no __contains__: Python falls back to iterating the container (through __iter__ or the sequence protocol) and comparing with ==
                r = False
                for item in self.iterate(b, node):
                    if item is a or self.truth(self.compare(ast.Eq(), item, a, node), node):
                        r = True
                        break
                return r if isinstance(op, ast.In) else not r
            if isinstance(b, (AutoMock, ClassRef, Closure)):
                raise Unsupported("membership test in %r at line %s" % (b, getattr(node, "lineno", "?")))
            try:
                r = a in b
            except TypeError as e:
                raise ProgramError(e, getattr(node, "lineno", None))
            return r if isinstance(op, ast.In) else not r
        for v in (a, b):
            if isinstance(v, AutoMock):
                raise Unsupported("comparison with the unmodelled value %s at line %s" % (v._name, getattr(node, "lineno", "?")))
        if isinstance(op, (ast.Eq, ast.NotEq)):
            for x_, y_ in ((a, b), (b, a)):
                if isinstance(x_, Instance) and x_._cls.find("__eq__")[0] is not None:
                    if isinstance(op, ast.NotEq) and self._dunder(x_, "__ne__") is not None:
                        r_ = self._dunder(x_, "__ne__")(y_)
                        if r_ is not NotImplemented:
                            return r_
                    m_ = self._dunder(x_, "__eq__")
                    if m_ is None:
                        raise Unsupported("== on an instance of %s (defines __eq__ in a way that is not modelled)" % x_._cls.name)
                    r_ = m_(y_)                       # the class's own __eq__
                    if r_ is NotImplemented:
                        continue
                    return r_ if isinstance(op, ast.Eq) else (not self.truth(r_, node))
            r = a == b
            return r if isinstance(op, ast.Eq) else (not r if isinstance(r, bool) else a != b)
        f = {ast.Lt: operator.lt, ast.LtE: operator.le, ast.Gt: operator.gt, ast.GtE: operator.ge}[type(op)]
        self._plain(a, node)
        self._plain(b, node)
        try:
            return f(a, b)
        except TypeError as e:
            raise ProgramError(e, getattr(node, "lineno", None))

    def e_Lambda(self, n, fr):
        c = Closure(self, n, fr.ctx, fr, fr.owner)
        c.eval_defaults()
        return c

    def e_Starred(self, n, fr):
        raise Unsupported("starred expression outside a call/display")

    def e_NamedExpr(self, n, fr):
        v = self.ev(n.value, fr)
        self.assign(n.target, v, fr)
        return v

    # comprehensions (evaluated eagerly)
    def _comp(self, gens, fr, emit):
        def rec(i, f):
            if i == len(gens):
                emit(f)
                return
            g = gens[i]
            for x in self.iterate(self.ev(g.iter, f), g.iter):
                self.tick(g.iter)
                self.assign(g.target, x, f)
                if all(self.truth(self.ev(c, f), c) for c in g.ifs):
                    rec(i + 1, f)
        rec(0, Frame(fr.ctx, fr, fr.owner))

    def e_ListComp(self, n, fr):
        out = []
        self._comp(n.generators, fr, lambda f: out.append(self.ev(n.elt, f)))
        return out

    def e_GeneratorExp(self, n, fr):
        return iter(self.e_ListComp(n, fr))

    def e_SetComp(self, n, fr):
        return set(self.e_ListComp(n, fr))

    def e_DictComp(self, n, fr):
        out = {}

        def emit(f):
            k = self.ev(n.key, f)
            out[k] = self.ev(n.value, f)
        self._comp(n.generators, fr, emit)
        return out

    def iterate(self, v, node=None):
        m = self._dunder(v, "__iter__")
        if m is not None:
            return iter(self.iterate(m(), node))
        if isinstance(v, Instance):
            gi = self._dunder(v, "__getitem__")
            if gi is not None:
                def seq():            # the sequence protocol: x[0], x[1], ... until IndexError
                    i = 0
                    while True:
                        try:
                            item = gi(i)
                        except ProgramError as e:
                            if isinstance(e.exc, IndexError):
                                return
                            raise
                        yield item
                        i += 1
                return seq()
            raise ProgramError(TypeError("'%s' object is not iterable" % v._cls.name), getattr(node, "lineno", None))
        if isinstance(v, (AutoMock, ClassRef, Closure, RepoModule)):
            raise Unsupported("iteration over %r at line %s" % (v, getattr(node, "lineno", "?")))
        try:
            return iter(v)
        except TypeError as e:
            raise ProgramError(e, getattr(node, "lineno", None))

    def e_Call(self, n, fr):
        # super() / super(C, self)
        if isinstance(n.func, ast.Name) and n.func.id == "super" and not fr.lookup("super")[0]:
            if n.args:
                start = self.ev(n.args[0], fr)
                inst = self.ev(n.args[1], fr)
            else:
                f = fr
                while f is not None and f.owner is None:
                    f = f.parent
                if f is None:
                    raise Unsupported("super() outside a method")
                start = f.owner
                first = None
                g = fr
                while g is not None:
                    if "self" in g.env:
                        first = g.env["self"]
                        break
                    g = g.parent
                inst = first
            import enum as _enum_
            if isinstance(inst, _enum_.Enum) and getattr(type(inst), "_sa_repo_enum", None):
                return super(type(inst), inst)           # a method of a repository enum class (built as a real Enum): the real super object (value, name)
            if isinstance(inst, BaseException) and getattr(type(inst), "_sa_repo_class", None) and isinstance(start, ClassRef):
                for k_ in type(inst).__mro__:
                    if k_.__dict__.get("_sa_repo_class") == start.name:
                        return super(k_, inst)           # a method of a repository exception class (built as a real exception class)
            if not isinstance(start, ClassRef) or not isinstance(inst, Instance):
                raise Unsupported("super() on unmodelled class")
            return SuperProxy(inst, start)
        f = self.ev(n.func, fr)
        args = []
        for a in n.args:
            if isinstance(a, ast.Starred):
                args.extend(self.iterate(self.ev(a.value, fr), a))
            else:
                args.append(self.ev(a, fr))
        kwargs = {}
        for k in n.keywords:
            if k.arg is None:
                kwargs.update(self.ev(k.value, fr))
            else:
                kwargs[k.arg] = self.ev(k.value, fr)
        return self.call(f, args, kwargs, n)

    def e_Yield(self, n, fr):
        f = fr
        while f is not None and f.yields is None and f.suspender is None:
            f = f.parent
        if f is None:
            raise Unsupported("yield outside a generator function")
        v = self.ev(n.value, fr) if n.value is not None else None
        if f.suspender is not None:
            return f.suspender.on_yield(v)
        f.yields.append(v)
        return None

    def e_YieldFrom(self, n, fr):
        f = fr
        while f is not None and f.yields is None and f.suspender is None:
            f = f.parent
        if f is None:
            raise Unsupported("yield outside a generator function")
        if f.suspender is not None:
            raise Unsupported("yield from inside a generator-based context manager")
        f.yields.extend(self.iterate(self.ev(n.value, fr), n))
        return None

    # ---------------------------------------------------------------- statements
    def block(self, stmts, fr):
        for s in stmts:
            self.stmt(s, fr)

    def stmt(self, s, fr):
        self.tick(s)
        m = getattr(self, "s_" + type(s).__name__, None)
        if m is None:
            raise Unsupported("statement %s at line %s" % (type(s).__name__, getattr(s, "lineno", "?")))
        return m(s, fr)

    def s_Expr(self, s, fr):
        if not isinstance(s.value, ast.Constant):
            self.ev(s.value, fr)

    def s_Pass(self, s, fr):
        pass

    def s_Import(self, s, fr):
        for a in s.names:
            fr.env[a.asname or a.name.split(".")[0]] = self.world.resolve(a.name if a.asname else a.name.split(".")[0])

    def s_ImportFrom(self, s, fr):
        mod = s.module or ""
        if s.level:
            base = fr.ctx.package(s.level)
            mod = base + ("." + mod if mod else "")
        for a in s.names:
            fr.env[a.asname or a.name] = self.world.resolve(mod + "." + a.name)

    def s_Global(self, s, fr):
        fr.globals_.update(s.names)

    def s_Nonlocal(self, s, fr):
        fr.nonlocals.update(s.names)

    def s_Assign(self, s, fr):
        v = self.ev(s.value, fr)
        for t in s.targets:
            self.assign(t, v, fr)

    def s_AnnAssign(self, s, fr):
        if s.value is not None:
            self.assign(s.target, self.ev(s.value, fr), fr)

    def s_AugAssign(self, s, fr):
        t = s.target
        if isinstance(t, ast.Name):
            cur = self.e_Name(ast.Name(id=t.id, ctx=ast.Load(), lineno=s.lineno, col_offset=0), fr)
            self.assign(t, self.binop(self._IBIN, s.op, cur, self.ev(s.value, fr), s), fr)
        elif isinstance(t, ast.Attribute):
            obj = self.ev(t.value, fr)
            cur = self.getattr_(obj, t.attr, t)
            self.setattr_(obj, t.attr, self.binop(self._IBIN, s.op, cur, self.ev(s.value, fr), s))
        elif isinstance(t, ast.Subscript):
            obj = self.ev(t.value, fr)
            key = self.ev(t.slice, fr)
            cur = self.getitem(obj, key, t)
            self.setitem(obj, key, self.binop(self._IBIN, s.op, cur, self.ev(s.value, fr), s), t)
        else:
            raise Unsupported("augmented assignment target")

    def setitem(self, obj, key, val, node=None):
        m = self._dunder(obj, "__setitem__")
        if m is not None:
            m(key, val)
            return
        if isinstance(obj, (AutoMock, Instance, ClassRef, Closure)):
            raise Unsupported("item store into %r at line %s" % (obj, getattr(node, "lineno", "?")))
        try:
            obj[key] = val
        except PROGRAM_EXC as e:
            raise ProgramError(e, getattr(node, "lineno", None))
        except TypeError as e:
            raise Unsupported("item store %s: %s" % (unparse(node) if node is not None else obj, e))

    def assign(self, t, v, fr):
        if isinstance(t, ast.Name):
            if t.id in fr.nonlocals:
                f = fr.parent
                while f is not None:
                    if t.id in f.env:
                        f.env[t.id] = v
                        return
                    f = f.parent
                raise Unsupported("nonlocal %s not found" % t.id)
            if t.id in fr.globals_:
                fr.ctx.written[t.id] = v
                return
            fr.env[t.id] = v
            return
        if isinstance(t, (ast.Tuple, ast.List)):
            vals = list(self.iterate(v, t))
            star = [i for i, e in enumerate(t.elts) if isinstance(e, ast.Starred)]
            if star:
                i = star[0]
                after = len(t.elts) - i - 1
                if len(vals) < len(t.elts) - 1:
                    raise ProgramError(ValueError("not enough values to unpack"), getattr(t, "lineno", None))
                for e, x in zip(t.elts[:i], vals[:i]):
                    self.assign(e, x, fr)
                self.assign(t.elts[i].value, vals[i:len(vals) - after], fr)
                for e, x in zip(t.elts[i + 1:], vals[len(vals) - after:]):
                    self.assign(e, x, fr)
                return
            if len(vals) != len(t.elts):
                raise ProgramError(ValueError("cannot unpack %d values into %d targets" % (len(vals), len(t.elts))), getattr(t, "lineno", None))
            for e, x in zip(t.elts, vals):
                self.assign(e, x, fr)
            return
        if isinstance(t, ast.Attribute):
            self.setattr_(self.ev(t.value, fr), t.attr, v)
            return
        if isinstance(t, ast.Subscript):
            self.setitem(self.ev(t.value, fr), self.ev(t.slice, fr), v, t)
            return
        raise Unsupported("assignment target %s" % type(t).__name__)

    def s_Delete(self, s, fr):
        for t in s.targets:
            if isinstance(t, ast.Name):
                fr.env.pop(t.id, None)
            elif isinstance(t, ast.Subscript):
                obj = self.ev(t.value, fr)
                key = self.ev(t.slice, fr)
                m = self._dunder(obj, "__delitem__")
                if m is not None:
                    m(key)
                    continue
                if isinstance(obj, (AutoMock, Instance)):
                    raise Unsupported("del item of %r" % (obj,))
                try:
                    del obj[key]
                except PROGRAM_EXC as e:
                    raise ProgramError(e, s.lineno)
            elif isinstance(t, ast.Attribute):
                obj = self.ev(t.value, fr)
                if isinstance(obj, Instance):
                    if self._dunder(obj, "__delattr__") is not None:
                        self.delattr_(obj, t.attr, s)
                    else:
                        obj._attrs.pop(t.attr, None)
                else:
                    raise Unsupported("del attribute of %r" % (obj,))
            else:
                raise Unsupported("del target")

    def s_If(self, s, fr):
        self.block(s.body if self.truth(self.ev(s.test, fr), s) else s.orelse, fr)

    def s_For(self, s, fr):
        broke = False
        for x in self.iterate(self.ev(s.iter, fr), s):
            self.tick(s)
            self.assign(s.target, x, fr)
            try:
                self.block(s.body, fr)
            except _Break:
                broke = True
                break
            except _Continue:
                continue
        if not broke:
            self.block(s.orelse, fr)

    def s_While(self, s, fr):
        broke = False
        while self.truth(self.ev(s.test, fr), s):
            self.tick(s)
            try:
                self.block(s.body, fr)
            except _Break:
                broke = True
                break
            except _Continue:
                continue
        if not broke:
            self.block(s.orelse, fr)

    def s_Break(self, s, fr):
        raise _Break()

    def s_Continue(self, s, fr):
        raise _Continue()

    def s_Return(self, s, fr):
        raise _Return(self.ev(s.value, fr) if s.value is not None else None)

    def s_Raise(self, s, fr):
        if s.exc is None:
            cur = getattr(fr, "handling", None)
            f = fr
            while cur is None and f.parent is not None:
                f = f.parent
                cur = getattr(f, "handling", None)
            if cur is None:
                raise Unsupported("bare raise outside a handler")
            raise cur
        e = self.ev(s.exc, fr)
        if isinstance(e, type) and issubclass(e, BaseException):
            e = e()
        if isinstance(e, BaseException):
            raise ProgramError(e, s.lineno)
        if isinstance(e, (Instance, ClassRef, AutoMock)):
            ex = RuntimeError("raise %r" % (e,))
            ex.payload = e
            raise ProgramError(ex, s.lineno)
        raise Unsupported("raise of %r" % (e,))

    def s_Assert(self, s, fr):
        if not self.truth(self.ev(s.test, fr), s):
            raise ProgramError(AssertionError(*([self.ev(s.msg, fr)] if s.msg is not None else [])), s.lineno)

    def s_Try(self, s, fr):
        try:
            try:
                self.block(s.body, fr)
            except ProgramError as pe:
                for h in s.handlers:
                    if h.type is None:
                        match = True
                    else:
                        ty = self.ev(h.type, fr)
                        tys = ty if isinstance(ty, tuple) else (ty,)
                        if any(not (isinstance(x, type) and issubclass(x, BaseException)) for x in tys):
                            raise Unsupported("except clause on %r" % (ty,))
                        match = isinstance(pe.exc, tuple(tys))
                    if match:
                        if h.name:
                            fr.env[h.name] = pe.exc
                        old = getattr(fr, "handling", None)
                        fr.handling = pe
                        try:
                            self.block(h.body, fr)
                        finally:
                            fr.handling = old
                        break
                else:
                    raise
            else:
                self.block(s.orelse, fr)
        finally:
            if s.finalbody:
                self.block(s.finalbody, fr)

    def s_With(self, s, fr):
        self._with(s, 0, fr)

    def _with(self, s, i, fr):
        """items i.. of a with statement, then its body: __enter__ / bind `as` / body / __exit__ (also when the body raises, returns, breaks)."""
        if i == len(s.items):
            self.block(s.body, fr)
            return
        it = s.items[i]
        v = self.ev(it.context_expr, fr)
        if isinstance(v, AutoMock):
            # an unmodelled context manager is inert: the body runs, nothing is suppressed
            if it.optional_vars is not None:
                self.assign(it.optional_vars, v, fr)
            self._with(s, i + 1, fr)
            return
        enter, exit_, abort = self._context_protocol(v, s)
        val = enter()
        if it.optional_vars is not None:
            self.assign(it.optional_vars, val, fr)
        try:
            self._with(s, i + 1, fr)
        except ProgramError as pe:
            if not exit_(pe):
                raise
            return
        except (_Return, _Break, _Continue):
            exit_(None)
            raise
        except BaseException:
            abort()
            raise
        exit_(None)

    def _context_protocol(self, v, node):
        """-> (enter(), exit(program error or None) -> suppressed?, abort()) for a context manager value."""
        if isinstance(v, GenContext):
            return v.enter, v.exit, v.abort
        if isinstance(v, Instance):
            en, c1 = v._cls.find("__enter__")
            ex, c2 = v._cls.find("__exit__")
            if en is None or ex is None:
                raise ProgramError(AttributeError("%s object does not support the context manager protocol" % v._cls.name), getattr(node, "lineno", None))
            en, ex = self._member(en, c1, v), self._member(ex, c2, v)

            def exit_(pe):
                return self.truth(ex(type(pe.exc), pe.exc, None) if pe is not None else ex(None, None, None))
            return (lambda: en()), exit_, (lambda: None)
        if getattr(v, "_sa_mock", False) and hasattr(type(v), "__enter__") and hasattr(type(v), "__exit__"):
            def exit_(pe):
                return bool(v.__exit__(type(pe.exc), pe.exc, None) if pe is not None else v.__exit__(None, None, None))
            return v.__enter__, exit_, (lambda: None)
        raise Unsupported("with statement on %r at line %s" % (v, getattr(node, "lineno", "?")))

    def s_FunctionDef(self, s, fr):
        cm = _is_contextmanager(s)
        if s.decorator_list and not (cm and len(s.decorator_list) == 1):
            raise Unsupported("decorated nested function %s" % s.name)
        c = Closure(self, s, fr.ctx, fr, fr.owner, cm=cm)
        c.eval_defaults()
        fr.env[s.name] = c

    def s_ClassDef(self, s, fr):
        raise Unsupported("nested class definition %s" % s.name)


def _has_yield(fn):
    cached = getattr(fn, "_sa_has_yield", None)      # the answer is a property of the def node: computed once (calls are frequent)
    if cached is not None:
        return cached
    todo = list(fn.body) if not isinstance(fn, ast.Lambda) else []
    found = False
    while todo:
        n = todo.pop()
        if isinstance(n, (ast.Yield, ast.YieldFrom)):
            found = True
            break
        if isinstance(n, (ast.FunctionDef, ast.Lambda, ast.ClassDef)):
            continue
        todo.extend(ast.iter_child_nodes(n))
    fn._sa_has_yield = found
    return found


# --------------------------------------------------------------------------------------------- modelled stdlib / numpy / scipy
class NDArr(object):
    """1-d integer/float array: the part of numpy.ndarray that index bookkeeping code uses."""
    _sa_mock = True
    _sa_strict_program = False

    def __init__(self, data, dtype=None):
        self.v = list(data)
        self.dtype = dtype

    def __repr__(self):
        return "array(%r)" % (self.v,)

    def __len__(self):
        return len(self.v)

    def __iter__(self):
        return iter(list(self.v))

    def _idx(self, i):
        if isinstance(i, bool) or not isinstance(i, int):
            if hasattr(i, "__index__"):
                return i.__index__()
            raise TypeError("array index %r" % (i,))
        return i

    def __getitem__(self, i):
        if isinstance(i, slice):
            return NDArr(self.v[i], self.dtype)
        if isinstance(i, NDArr):
            if i.v and all(isinstance(x, bool) for x in i.v):
                if len(i.v) != len(self.v):
                    raise IndexError("boolean index did not match")
                return NDArr([x for x, m in zip(self.v, i.v) if m], self.dtype)
            return NDArr([self.v[j] for j in i.v], self.dtype)
        if isinstance(i, list):
            return NDArr([self.v[j] for j in i], self.dtype)
        if isinstance(i, tuple):
            if len(i) == 1:
                return self[i[0]]
            raise IndexError("too many indices for array")
        return self.v[self._idx(i)]

    def __setitem__(self, i, x):
        if isinstance(i, slice):
            n = len(self.v[i])
            self.v[i] = list(x.v) if isinstance(x, NDArr) else (list(x) if isinstance(x, (list, tuple)) else [x] * n)
            return
        if isinstance(i, (NDArr, list)):
            idx = i.v if isinstance(i, NDArr) else i
            if idx and all(isinstance(k, bool) for k in idx):
                idx = [k for k, m in enumerate(idx) if m]
            xs = x.v if isinstance(x, NDArr) else (x if isinstance(x, (list, tuple)) else [x] * len(idx))
            for k, val in zip(idx, xs):
                self.v[k] = val
            return
        self.v[self._idx(i)] = x

    def _ew(self, o, f):
        if isinstance(o, NDArr):
            if len(o.v) != len(self.v):
                raise ValueError("operands could not be broadcast together")
            return NDArr([f(a, b) for a, b in zip(self.v, o.v)])
        return NDArr([f(a, o) for a in self.v])

    def __eq__(self, o):
        return self._ew(o, operator.eq)

    def __ne__(self, o):
        return self._ew(o, operator.ne)

    def __lt__(self, o):
        return self._ew(o, operator.lt)

    def __le__(self, o):
        return self._ew(o, operator.le)

    def __gt__(self, o):
        return self._ew(o, operator.gt)

    def __ge__(self, o):
        return self._ew(o, operator.ge)

    def __add__(self, o):
        return self._ew(o, operator.add)

    def __sub__(self, o):
        return self._ew(o, operator.sub)

    def __mul__(self, o):
        return self._ew(o, operator.mul)

    def __and__(self, o):
        return self._ew(o, lambda a, b: bool(a) and bool(b))

    def __or__(self, o):
        return self._ew(o, lambda a, b: bool(a) or bool(b))

    def __invert__(self):
        return NDArr([not a for a in self.v])

    __hash__ = None

    def __bool__(self):
        if len(self.v) == 1:
            return bool(self.v[0])
        raise ValueError("The truth value of an array with more than one element is ambiguous")

    def tolist(self):
        return list(self.v)

    def copy(self):
        return NDArr(self.v, self.dtype)

    def astype(self, dtype):
        return NDArr(self.v, dtype)

    def sum(self):
        return sum(self.v)

    def any(self):
        return any(self.v)

    def all(self):
        return all(self.v)

    def nonzero(self):
        return (NDArr([i for i, x in enumerate(self.v) if x]),)

    def fill(self, x):
        self.v[:] = [x] * len(self.v)

    @property
    def size(self):
        return len(self.v)

    @property
    def shape(self):
        return (len(self.v),)

    @property
    def ndim(self):
        return 1


def _seq(x):
    if isinstance(x, NDArr):
        return list(x.v)
    return list(x)


def numpy_namespace():
    def array(x, dtype=None, copy=True):
        return NDArr(_seq(x), dtype)

    def asarray(x, dtype=None):
        return x if isinstance(x, NDArr) and dtype is None else NDArr(_seq(x), dtype)

    def where(c, *rest):
        if rest:
            a, b = rest
            cs = _seq(c)
            av = _seq(a) if isinstance(a, (NDArr, list, tuple)) else [a] * len(cs)
            bv = _seq(b) if isinstance(b, (NDArr, list, tuple)) else [b] * len(cs)
            return NDArr([x if m else y for m, x, y in zip(cs, av, bv)])
        return (NDArr([i for i, x in enumerate(_seq(c)) if x]),)
    ns = Namespace("numpy", array=array, asarray=asarray, ascontiguousarray=asarray,
                   ones=lambda n, dtype=None: NDArr([1] * (n if isinstance(n, int) else n[0]), dtype),
                   zeros=lambda n, dtype=None: NDArr([0] * (n if isinstance(n, int) else n[0]), dtype),
                   full=lambda n, v, dtype=None: NDArr([v] * (n if isinstance(n, int) else n[0]), dtype),
                   empty=lambda n, dtype=None: NDArr([0] * (n if isinstance(n, int) else n[0]), dtype),
                   ones_like=lambda a, dtype=None: NDArr([1] * len(a), dtype), zeros_like=lambda a, dtype=None: NDArr([0] * len(a), dtype),
                   arange=lambda *a, **k: NDArr(range(*a), k.get("dtype")), where=where,
                   nonzero=lambda a: (NDArr([i for i, x in enumerate(_seq(a)) if x]),),
                   flatnonzero=lambda a: NDArr([i for i, x in enumerate(_seq(a)) if x]),
                   argwhere=lambda a: NDArr([i for i, x in enumerate(_seq(a)) if x]),
                   diff=lambda a: NDArr([y - x for x, y in zip(_seq(a)[:-1], _seq(a)[1:])]),
                   sum=lambda a: sum(_seq(a)), any=lambda a: any(_seq(a)), all=lambda a: all(_seq(a)),
                   count_nonzero=lambda a: sum(1 for x in _seq(a) if x),
                   int32="int32", int64="int64", intc="intc", int_="int64", float64="float64", float32="float32", float16="float16", int16="int16", bool_="bool", uint8="uint8",
                   pi=math.pi, inf=float("inf"), nan=float("nan"), ndarray=NDArr,
                   abs=lambda a: NDArr([abs(x) for x in a.v]) if isinstance(a, NDArr) else abs(a), sqrt=math.sqrt, isnan=lambda x: x != x)
    return ns


class CSR(object):
    """scipy.sparse.csr_matrix built from (data, (rows, cols)): duplicates are summed, the column indices of a row are sorted, explicit
    zeros keep their slot; without `shape` the shape is (max row + 1, max col + 1).  Item stores on an existing slot overwrite it."""
    _sa_mock = True

    def __init__(self, arg, shape=None, dtype=None, copy=False):
        if isinstance(arg, CSR):
            self.shape = arg.shape
            self.data, self.indices, self.indptr = arg.data.copy(), arg.indices.copy(), arg.indptr.copy()
            return
        if not (isinstance(arg, tuple) and len(arg) == 2 and isinstance(arg[1], tuple) and len(arg[1]) == 2):
            if isinstance(arg, tuple) and len(arg) == 3:
                self.data, self.indices, self.indptr = NDArr(_seq(arg[0])), NDArr(_seq(arg[1])), NDArr(_seq(arg[2]))
                self.shape = tuple(shape) if shape is not None else (len(self.indptr) - 1, (max(self.indices.v) + 1) if self.indices.v else 0)
                return
            if isinstance(arg, tuple) and len(arg) == 2 and all(isinstance(x, int) for x in arg):
                self.shape = tuple(arg)
                self.data, self.indices, self.indptr = NDArr([]), NDArr([]), NDArr([0] * (arg[0] + 1))
                return
            raise Unsupported("csr_matrix constructor form not modelled")
        vals, (rows, cols) = arg
        vals, rows, cols = _seq(vals), _seq(rows), _seq(cols)
        if not (len(vals) == len(rows) == len(cols)):
            raise ValueError("row, column, and data array must all be the same length")
        if shape is None:
            if not rows:
                raise ValueError("cannot infer dimensions from zero sized index arrays")
            shape = (max(rows) + 1, max(cols) + 1)
        shape = tuple(shape)
        for r, c in zip(rows, cols):
            if r < 0 or c < 0:
                raise ValueError("negative index found")
            if r >= shape[0] or c >= shape[1]:
                raise ValueError("index exceeds matrix dimensions")
        acc = collections.OrderedDict()
        for v, r, c in zip(vals, rows, cols):
            acc[(r, c)] = acc.get((r, c), 0) + v
        keys = sorted(acc)
        self.shape = shape
        self.data = NDArr([acc[k] for k in keys], dtype)
        self.indices = NDArr([k[1] for k in keys])
        ptr = [0] * (shape[0] + 1)
        for r, c in keys:
            ptr[r + 1] += 1
        for i in range(shape[0]):
            ptr[i + 1] += ptr[i]
        self.indptr = NDArr(ptr)

    def __repr__(self):
        return "<csr %s nnz=%d>" % (self.shape, len(self.data))

    @property
    def nnz(self):
        return len(self.data)

    def _find(self, r, c):
        if not (0 <= r < self.shape[0] and 0 <= c < self.shape[1]):
            raise IndexError("index (%s, %s) out of range" % (r, c))
        for k in range(self.indptr.v[r], self.indptr.v[r + 1]):
            if self.indices.v[k] == c:
                return k
        return None

    def __getitem__(self, key):
        if not (isinstance(key, tuple) and len(key) == 2 and all(isinstance(x, int) for x in key)):
            raise Unsupported("csr_matrix indexing form not modelled: %r" % (key,))
        k = self._find(*key)
        return 0 if k is None else self.data.v[k]

    def __setitem__(self, key, val):
        if not (isinstance(key, tuple) and len(key) == 2 and all(isinstance(x, int) for x in key)):
            raise Unsupported("csr_matrix item store form not modelled: %r" % (key,))
        r, c = key
        k = self._find(r, c)
        if k is not None:
            self.data.v[k] = val
            return
        # structure change (scipy warns SparseEfficiencyWarning and inserts)
        pos = self.indptr.v[r]
        while pos < self.indptr.v[r + 1] and self.indices.v[pos] < c:
            pos += 1
        self.data.v.insert(pos, val)
        self.indices.v.insert(pos, c)
        for i in range(r + 1, len(self.indptr.v)):
            self.indptr.v[i] += 1

    def tocsr(self, copy=False):
        return self

    def copy(self):
        return CSR(self)

    def sort_indices(self):
        pass

    def sum_duplicates(self):
        pass

    def has_sorted_indices(self):
        return True

    def eliminate_zeros(self):
        keep = [k for k, v in enumerate(self.data.v) if v != 0]
        rows = []
        for r in range(self.shape[0]):
            rows.extend([r] * (self.indptr.v[r + 1] - self.indptr.v[r]))
        ptr = [0] * (self.shape[0] + 1)
        for k in keep:
            ptr[rows[k] + 1] += 1
        for i in range(self.shape[0]):
            ptr[i + 1] += ptr[i]
        self.data.v[:] = [self.data.v[k] for k in keep]
        self.indices.v[:] = [self.indices.v[k] for k in keep]
        self.indptr.v[:] = ptr

    def getrow(self, r):
        raise Unsupported("csr_matrix.getrow not modelled")

    def toarray(self):
        """dense rows as a list of lists (duplicates summed, as scipy does)"""
        rows = [[0.0] * self.shape[1] for _ in range(self.shape[0])]
        ptr, idx, dat = list(self.indptr.v), list(self.indices.v), list(self.data.v)
        for r in range(self.shape[0]):
            for k in range(ptr[r], ptr[r + 1]):
                if not 0 <= idx[k] < self.shape[1]:
                    raise ValueError("column index %r out of range" % (idx[k],))
                rows[r][idx[k]] += dat[k]
        return rows


class COO(object):
    """scipy.sparse.coo_matrix((data, (rows, cols)), shape): only as a way to a CSR matrix"""
    _sa_mock = True

    def __init__(self, arg, shape=None, dtype=None, copy=False):
        self.arg, self.shape_arg, self.dtype = arg, shape, dtype

    def tocsr(self, copy=False):
        return CSR(self.arg, shape=self.shape_arg, dtype=self.dtype)


class LoggerMock(object):
    _sa_mock = True

    def __init__(self, world_state):
        self.state = world_state

    def getEffectiveLevel(self):
        return self.state["log_level"]

    def isEnabledFor(self, lvl):
        return lvl >= self.state["log_level"]

    def _log(self, *a, **k):
        return None

    debug = info = warning = error = critical = exception = log = warn = _log

    def setLevel(self, l):
        pass


def stdlib_overrides(state=None):
    """modelled modules: numpy, scipy.sparse, logging, warnings, itertools, math, collections, typing (inert)."""
    state = state if state is not None else {"log_level": 30}
    lg = LoggerMock(state)
    logging_ns = Namespace("logging", getLogger=lambda *a, **k: lg, DEBUG=10, INFO=20, WARNING=30, ERROR=40, CRITICAL=50, NOTSET=0, Logger=LoggerMock)
    sparse = Namespace("scipy.sparse", csr_matrix=CSR, csr_array=CSR, coo_matrix=COO, coo_array=COO, isspmatrix_csr=lambda x: isinstance(x, CSR), issparse=lambda x: isinstance(x, CSR))
    sparse.csr = Namespace("scipy.sparse.csr", csr_matrix=CSR)
    scipy_ns = Namespace("scipy", sparse=sparse, optimize=AutoMock("scipy.optimize"))
    coll = Namespace("collections", OrderedDict=collections.OrderedDict, defaultdict=collections.defaultdict, deque=collections.deque, Counter=collections.Counter,
                     namedtuple=collections.namedtuple, ChainMap=collections.ChainMap, abc=AutoMock("collections.abc"))
    it = Namespace("itertools", chain=itertools.chain, product=itertools.product, combinations=itertools.combinations, permutations=itertools.permutations,
                   repeat=itertools.repeat, count=itertools.count, islice=itertools.islice, groupby=itertools.groupby, zip_longest=itertools.zip_longest,
                   accumulate=itertools.accumulate, starmap=itertools.starmap)
    it.chain = itertools.chain
    m = Namespace("math", **{k: getattr(math, k) for k in dir(math) if not k.startswith("_")})
    op = Namespace("operator", **{k: getattr(operator, k) for k in ("itemgetter", "attrgetter", "add", "sub", "mul", "eq", "ne", "lt", "le", "gt", "ge", "not_", "truth")})
    class _CatchWarnings(object):          # warnings.catch_warnings(): entering and leaving changes nothing the analysed code can observe here
        _sa_mock = True

        def __init__(self, *a, **k):
            pass

        def __enter__(self):
            return []

        def __exit__(self, *a):
            return False
    warnings_ns = Namespace("warnings", warn=lambda *a, **k: None, simplefilter=lambda *a, **k: None, filterwarnings=lambda *a, **k: None, catch_warnings=_CatchWarnings)
    ov = {"numpy": numpy_namespace(), "scipy": scipy_ns, "scipy.sparse": sparse, "scipy.sparse.csr": sparse.csr, "logging": logging_ns, "warnings": warnings_ns,
          "itertools": it, "math": m, "collections": coll, "operator": op,
          "types": Namespace("types", MethodType=MethodTypeMarker, FunctionType=FunctionTypeMarker),
          "sys": Namespace("sys", version_info=sys.version_info, maxsize=sys.maxsize, platform="linux", float_info=sys.float_info, getdefaultencoding=lambda: "utf-8",
                           byteorder=sys.byteorder)}
    return ov, state
