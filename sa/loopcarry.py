"""Loop-carried partial assignment (a definite-assignment dataflow, syntax-directed over the structured statements Python has).

For one loop L and one local variable v that is assigned somewhere inside L's body, every read of v inside the body is classified relative to ONE
iteration of L:

  A  on every path from the top of the body to the read, v was assigned in this iteration          -> the value belongs to this element
  N  on no path was it assigned in this iteration                                                   -> a deliberate carry (accumulator, `prev`, counter)
  M  on some paths it was, on others it was not                                                     -> MIXED

A mixed read means the value used for this element is, for some elements, whatever an EARLIER element of the loop left behind (or the value from
before the loop for the first): the per-element result depends on the order and content of the other elements.  In the model builders
(wntr/sim/models/*.py `build` methods loop over the elements they create entries for) every entry must be a function of its own element only, so a
mixed read is a violation there; accumulators and counters (class N) are not touched by the rule.

The walk is over the AST, not over text: if / elif / else, nested for / while (with a fixpoint for the back edge and the zero-iteration exit),
try / except / else / finally, with, continue / break / return / raise (a branch that leaves the iteration does not flow to the join), augmented
assignments (a read and a write), tuple targets, comprehension and lambda bodies (reads of enclosing variables at the point of definition), `del`.
"""
import ast

A, M = "A", "M"          # absent from the state = N


def _join(states):
    """states: list of dict or None (None = the branch does not reach the join)."""
    live = [s for s in states if s is not None]
    if not live:
        return None
    out = {}
    keys = set()
    for s in live:
        keys |= set(s)
    for k in keys:
        vals = [s.get(k) for s in live]
        out[k] = A if all(v == A for v in vals) else M
    return out


def _subject(test):
    """the expression an arm of a case split discriminates: x in `x == c`, `x in (..)`, `x is c`, `isinstance(x, T)`, `len(x) == n`, `x.upper() == c`"""
    if isinstance(test, ast.Compare) and len(test.ops) == 1 and isinstance(test.ops[0], (ast.Eq, ast.In, ast.Is)):
        l, r = test.left, test.comparators[0]
        if isinstance(l, ast.Constant) and not isinstance(r, ast.Constant):
            l, r = r, l
        return ast.dump(l)
    if isinstance(test, ast.Call) and isinstance(test.func, ast.Name) and test.func.id == "isinstance" and len(test.args) == 2:
        return ast.dump(test.args[0])
    if isinstance(test, ast.BoolOp) and isinstance(test.op, ast.Or):
        subs = {_subject(v) for v in test.values}
        return subs.pop() if len(subs) == 1 else None
    return None


def _same_subject(tests):
    subs = [_subject(t) for t in tests]
    return subs[0] is not None and all(x == subs[0] for x in subs)


class _Walker(object):
    def __init__(self, assigned):
        self.assigned = assigned          # names assigned somewhere in the loop body
        self.mixed = []                   # (name, node of the read)
        self.carried = []                 # (name, node) reads of class N (for the evidence: accumulators seen)
        self._cont, self._brk = [], []    # states reaching `continue` / `break` of THIS walker's loop

    # ---------------------------------------------------------------- expressions
    def reads(self, expr, st):
        if expr is None or st is None:
            return
        for n in ast.walk(expr):
            if isinstance(n, ast.Name) and isinstance(n.ctx, ast.Load) and n.id in self.assigned:
                c = st.get(n.id)
                if c == M:
                    self.mixed.append((n.id, n))
                elif c is None:
                    self.carried.append((n.id, n))

    def assign(self, target, st):
        for n in ast.walk(target):
            if isinstance(n, ast.Name) and isinstance(n.ctx, (ast.Store, ast.Del)):
                if n.id in self.assigned:
                    st[n.id] = A
            elif isinstance(n, ast.Name):
                pass
        # reads inside a subscript / attribute target (m.x[k] = ...: k and m are read)
        for n in ast.walk(target):
            if isinstance(n, (ast.Subscript, ast.Attribute)):
                self.reads(n.value, st)
                if isinstance(n, ast.Subscript):
                    self.reads(n.slice, st)

    # ---------------------------------------------------------------- statements
    def block(self, stmts, st):
        for s in stmts:
            if st is None:
                return None
            st = self.stmt(s, st)
        return st

    def stmt(self, s, st):
        if isinstance(s, ast.Assign):
            self.reads(s.value, st)
            for t in s.targets:
                self.assign(t, st)
            return st
        if isinstance(s, ast.AnnAssign):
            if s.value is not None:
                self.reads(s.value, st)
                self.assign(s.target, st)
            return st
        if isinstance(s, ast.AugAssign):
            self.reads(s.value, st)
            if isinstance(s.target, ast.Name):
                if s.target.id in self.assigned:
                    c = st.get(s.target.id)
                    if c == M:
                        self.mixed.append((s.target.id, s.target))
                    elif c is None:
                        self.carried.append((s.target.id, s.target))
                    # the class is unchanged: `n += 1` on a carried n stays a carry, it does not make later reads element-local
            else:
                self.assign(s.target, st)
            return st
        if isinstance(s, ast.Expr):
            self.reads(s.value, st)
            return st
        if isinstance(s, ast.If):
            arms, cur = [], s
            while True:
                arms.append(cur)
                if len(cur.orelse) == 1 and isinstance(cur.orelse[0], ast.If):
                    cur = cur.orelse[0]
                else:
                    break
            final = arms[-1].orelse
            outs, sti = [], dict(st)
            for arm in arms:
                self.reads(arm.test, sti)
                outs.append(self.block(arm.body, dict(sti)))
            if final:
                outs.append(self.block(final, dict(sti)))
            elif not (len(arms) >= 2 and _same_subject([a_.test for a_ in arms])):
                # an if / elif chain of two or more arms that all discriminate ONE subject (a kind, a type, a count) and has no else is taken as a
                # case split over a closed set: the implicit fall-through is not a path (path-insensitive analyses flag exactly this idiom falsely)
                outs.append(dict(sti))
            return _join(outs)
        if isinstance(s, (ast.For, ast.While)):
            if isinstance(s, ast.For):
                self.reads(s.iter, st)
            entry = dict(st)
            # fixpoint over the back edge of the nested loop (two rounds suffice for a three-point lattice per variable; run until stable)
            cur = dict(entry)
            for _ in range(6):
                body_in = dict(cur)
                if isinstance(s, ast.For):
                    self.assign(s.target, body_in)
                else:
                    pass
                sub = _Walker(self.assigned)
                if isinstance(s, ast.While):
                    sub.reads(s.test, body_in)
                out = sub.block(s.body, body_in)
                nxt = _join([entry, out] + sub.cont_states())
                if nxt == cur:
                    break
                cur = nxt
            # final pass with the stable entry state records the reads
            body_in = dict(cur)
            if isinstance(s, ast.For):
                self.assign(s.target, body_in)
            inner = _Walker(self.assigned)
            if isinstance(s, ast.While):
                inner.reads(s.test, body_in)
            out = inner.block(s.body, body_in)
            self.mixed += inner.mixed
            self.carried += inner.carried
            after = _join([cur, out] + inner.cont_states() + inner.break_states())
            if s.orelse:
                after = self.block(s.orelse, after)
            return after
        if isinstance(s, ast.Try) or type(s).__name__ == "TryStar":
            entry = dict(st)
            body_out = self.block(s.body, dict(st))
            # a handler may start after any prefix of the body
            h_in = dict(entry)
            for k in set(self._assigned_in(s.body)):
                if k in self.assigned and entry.get(k) != A:
                    h_in[k] = M
            outs = []
            for h in s.handlers:
                hs = dict(h_in)
                if h.name and h.name in self.assigned:
                    hs[h.name] = A
                outs.append(self.block(h.body, hs))
            else_out = self.block(s.orelse, body_out) if s.orelse and body_out is not None else body_out
            res = _join([else_out] + outs)
            if s.finalbody:
                res = self.block(s.finalbody, res if res is not None else dict(h_in))
            return res
        if isinstance(s, (ast.With, ast.AsyncWith)):
            for it in s.items:
                self.reads(it.context_expr, st)
                if it.optional_vars is not None:
                    self.assign(it.optional_vars, st)
            return self.block(s.body, st)
        if isinstance(s, ast.Continue):
            self._cont.append(dict(st))
            return None
        if isinstance(s, ast.Break):
            self._brk.append(dict(st))
            return None
        if isinstance(s, ast.Return):
            self.reads(s.value, st)
            return None
        if isinstance(s, ast.Raise):
            self.reads(s.exc, st)
            self.reads(s.cause, st)
            return None
        if isinstance(s, ast.Delete):
            for t in s.targets:
                if isinstance(t, ast.Name):
                    st.pop(t.id, None)
                else:
                    self.assign(t, st)
            return st
        if isinstance(s, ast.Assert):
            self.reads(s.test, st)
            self.reads(s.msg, st)
            return st
        if isinstance(s, (ast.FunctionDef, ast.AsyncFunctionDef, ast.ClassDef)):
            for n in ast.walk(s):
                if isinstance(n, ast.Name) and isinstance(n.ctx, ast.Load):
                    self.reads(n, st)
            if s.name in self.assigned:
                st[s.name] = A
            return st
        if isinstance(s, (ast.Import, ast.ImportFrom)):
            for a in s.names:
                nm = (a.asname or a.name).split(".")[0]
                if nm in self.assigned:
                    st[nm] = A
            return st
        if isinstance(s, (ast.Pass, ast.Global, ast.Nonlocal)):
            return st
        if type(s).__name__ == "Match":
            self.reads(s.subject, st)
            outs = []
            for c in s.cases:
                cs = dict(st)
                for n in ast.walk(c.pattern):
                    nm = getattr(n, "name", None)
                    if isinstance(nm, str) and nm in self.assigned:
                        cs[nm] = A
                self.reads(c.guard, cs)
                outs.append(self.block(c.body, cs))
            return _join(outs + [dict(st)])
        raise NotImplementedError("statement %s at line %s" % (type(s).__name__, getattr(s, "lineno", "?")))

    def cont_states(self):
        return list(self._cont)

    def break_states(self):
        return list(self._brk)

    @staticmethod
    def _assigned_in(stmts):
        out = []
        for s in stmts:
            out += assigned_names(s)
        return out


def assigned_names(node):
    """names bound by statements under `node` (not inside nested function / class bodies or comprehensions)"""
    out = []

    def visit(n):
        if isinstance(n, (ast.FunctionDef, ast.AsyncFunctionDef, ast.ClassDef)):
            out.append(n.name)
            return
        if isinstance(n, (ast.Lambda, ast.ListComp, ast.SetComp, ast.DictComp, ast.GeneratorExp)):
            return
        if isinstance(n, ast.Name) and isinstance(n.ctx, ast.Store):
            out.append(n.id)
        if isinstance(n, ast.ExceptHandler) and n.name:
            out.append(n.name)
        if isinstance(n, (ast.Import, ast.ImportFrom)):
            for a in n.names:
                out.append((a.asname or a.name).split(".")[0])
        for c in ast.iter_child_nodes(n):
            visit(c)
    visit(node)
    return out


def loops_of(fn):
    """the for / while loops of a function, outermost first (nested function bodies are separate functions)"""
    out = []

    def visit(n):
        for c in ast.iter_child_nodes(n):
            if isinstance(c, (ast.FunctionDef, ast.AsyncFunctionDef, ast.ClassDef, ast.Lambda)):
                continue
            if isinstance(c, (ast.For, ast.While)):
                out.append(c)
            visit(c)
    visit(fn)
    return out


def analyse_loop(loop):
    """-> (mixed reads [(name, node)], carried reads [(name, node)], names assigned in the body)"""
    names = set()
    for s in loop.body:
        names |= set(assigned_names(s))
    if isinstance(loop, ast.For):
        tnames = {n.id for n in ast.walk(loop.target) if isinstance(n, ast.Name)}
    else:
        tnames = set()
    w = _Walker(names | tnames)
    st = {}
    for t in tnames:
        st[t] = A
    if isinstance(loop, ast.While):
        w.reads(loop.test, st)
    w.block(loop.body, st)
    seen, mixed = set(), []
    for nm, n in w.mixed:
        k = (nm, n.lineno, n.col_offset)
        if k not in seen:
            seen.add(k)
            mixed.append((nm, n))
    return mixed, w.carried, names


def analyse_function(fn):
    """-> list of (loop, mixed reads, carried reads, assigned names) for every loop of the function, each judged relative to its own iteration"""
    return [(lp,) + analyse_loop(lp) for lp in loops_of(fn)]
