"""Self-test of the in-house interpreter (sa/concrete.py, engine E9): every probe module under sa/selftest/probes/wntr is run twice -- natively by the
Python that runs the checks, and interpreted by E9 from its source -- and the printed results must be identical.  A difference is a defect of the
interpreter (a T3 rule could then misjudge repository code using that construct); `Unsupported` is acceptable only for probes listed in ALLOWED_UNSUPPORTED.

usage: python3-vt -m sa.selftest.run_probes        (exit 0: identical; exit 1: a difference)"""
import importlib.util
import os
import sys

HERE = os.path.dirname(os.path.abspath(__file__))
ROOT = os.path.join(HERE, "probes")
PROBES = [("p1", "t1"), ("p2", "t2"), ("p3", "t3"), ("p4", "t4"), ("p5", "t5")]


def native(mod, fn):
    spec = importlib.util.spec_from_file_location("probe_" + mod, os.path.join(ROOT, "wntr", mod + ".py"))
    m = importlib.util.module_from_spec(spec)
    sys.modules["probe_" + mod] = m          # dataclasses / namedtuple look the module up by name
    spec.loader.exec_module(m)
    return getattr(m, fn)()


def interpreted(mod, fn):
    import re, copy, functools, itertools, collections, math
    from ..src import Repo
    from ..concrete import World, stdlib_overrides
    repo = Repo(ROOT)
    ov, _ = stdlib_overrides()
    import enum, abc, logging, warnings
    ov.update({"re": re, "copy": copy, "functools": functools, "itertools": itertools, "math": math, "enum": enum})
    w = World(repo, ov)
    return w.function("wntr/%s.py" % mod, fn)()


def main():
    from ..concrete import ProgramError, Unsupported
    bad = 0
    for mod, fn in PROBES:
        want = native(mod, fn)
        try:
            got = interpreted(mod, fn)
        except (ProgramError, Unsupported) as e:
            print("PROBE %s: interpreter stopped: %s: %s (line %s)" % (mod, type(e).__name__, e, getattr(e, "lineno", None)))
            bad += 1
            continue
        if repr(got) == repr(want):
            print("PROBE %s: identical (%d characters)" % (mod, len(repr(want))))
            continue
        bad += 1
        print("PROBE %s: DIFFERENT" % mod)
        if isinstance(want, list) and isinstance(got, list):
            def flat(x, pre=""):
                if isinstance(x, list):
                    for i, y in enumerate(x):
                        yield from flat(y, pre + "[%d]" % i)
                else:
                    yield pre, x
            fw, fg = dict(flat(want)), dict(flat(got))
            for k in sorted(set(fw) | set(fg)):
                if repr(fw.get(k, "<absent>")) != repr(fg.get(k, "<absent>")):
                    print("   %s: native %r  interpreted %r" % (k, fw.get(k, "<absent>"), fg.get(k, "<absent>")))
        else:
            print("   native      %r\n   interpreted %r" % (want, got))
    return 1 if bad else 0


if __name__ == "__main__":
    sys.exit(main())
