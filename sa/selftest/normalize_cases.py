"""Self-test of the shape normaliser (sa/normalize.py, engine E0): each case is a small module; the module is executed natively BEFORE and AFTER normalisation
on the same calls and the results (return values, mutated arguments, raised exception types) must be identical -- the passes are behaviour-preserving or they
are wrong.  Each case also states a shape the normalised `target` function must (not) have, so that a pass which silently stops applying is noticed.

usage: python3-vt -m sa.selftest.normalize_cases       (exit 0: all cases hold)"""
import ast
import copy
import sys

CASES = [
    dict(name="generator helper fused into its consumer", target="fill", must_not=["_pairs("], must=["for "], src='''
def _pairs(d, scale):
    """doc"""
    for k in sorted(d):
        if d[k] is None:
            continue
        yield k, d[k] * scale
    for k in ("x", "y"):
        yield k, 0

def fill(d, out):
    n = 0
    for name, v in _pairs(d, 2):
        if v < 0:
            continue
        out[name] = v
        n += 1
    return n
''', calls=[("fill", [dict(a=1, b=None, c=-2), {}]), ("fill", [{}, {"q": 1}])]),
    dict(name="generator consumer with break is left alone", target="first", must=["_gen("], src='''
def _gen(n):
    for i in range(n):
        yield i * i

def first(n, lim):
    for v in _gen(n):
        if v > lim:
            break
    else:
        return None
    return v
''', calls=[("first", [10, 20]), ("first", [3, 100])]),
    dict(name="loop over a literal table written out", target="copy_attrs", must=["dst.alpha = ", "dst._c = "], must_not=["setattr", "for "], src='''
_NAMES = ("alpha", "beta")
_TRIPLES = (("_c", "c", 0.0), ("_d", "d", False))

class Box(object):
    pass

def copy_attrs(src):
    dst = Box()
    for nm in _NAMES:
        setattr(dst, nm, src.setdefault(nm))
    for attr, key, default in _TRIPLES:
        setattr(dst, attr, src.setdefault(key, default))
    return sorted(dst.__dict__.items()), sorted(src.items(), key=str)
''', calls=[("copy_attrs", [dict(alpha=1, c=5)]), ("copy_attrs", [{}])]),
    dict(name="loop variable read after the loop: not written out", target="last", must=["for "], src='''
def last(xs):
    for nm in ("p", "q"):
        xs.append(nm)
    return nm
''', calls=[("last", [[]])]),
    dict(name="expression helper substituted", target="count_closed", must=[".status == 0"], must_not=["_closed(l)"], src='''
def _closed(link):
    return link.status == 0

class L(object):
    def __init__(self, s):
        self.status = s

def count_closed(ss):
    n = 0
    for l in [L(s) for s in ss]:
        if _closed(l):
            n += 1
        elif not _closed(l) and l.status > 1:
            n += 10
    return n
''', calls=[("count_closed", [[0, 1, 2, 0]])]),
    dict(name="mutated module-level container is not a constant", target="remember", must=["_SEEN"], src='''
_SEEN = {}
_LIMIT = 3

def remember(k):
    if k in _SEEN:
        return _SEEN[k]
    _SEEN[k] = len(_SEEN) + _LIMIT
    return _SEEN[k]
''', calls=[("remember", ["a"]), ("remember", ["b"]), ("remember", ["a"])]),
    dict(name="statement helper with early return inlined", target="classify", must_not=["_kind("], src='''
def _kind(v, lo, hi):
    if v < lo:
        return "low"
    if v > hi:
        return "high"
    return "mid"

def classify(vs):
    out = []
    for v in vs:
        k = _kind(v, 1, 5)
        out.append(k)
    return out
''', calls=[("classify", [[0, 3, 9]])]),
    dict(name="copy left behind by inlining a helper that returns its local", target="start", must=["first = True", "if first:"], must_not=["first_", "_init("], src='''
class S(object):
    def __init__(self, t):
        self.t, self.log = t, []

    def _init(self):
        if self.t == 0:
            first = True
        else:
            first = False
        if first:
            self.log.append("reset")
        return first

    def start(self):
        first = self._init()
        steps = 0
        while steps < 2:
            if first:
                self.log.append("first")
            first = False
            steps += 1
        return self.log

def run(t):
    return S(t).start()
''', calls=[("run", [0]), ("run", [5])]),
    dict(name="conditional expression lowered, alias resolved", target="pick", must=["if "], src='''
class Mode(object):
    Fast = 1
    Slow = 2

def pick(flag):
    fast = Mode.Fast
    x = fast if flag else Mode.Slow
    return x
''', calls=[("pick", [True]), ("pick", [False])]),
]


def run_calls(tree, calls):
    ns = {}
    exec(compile(tree, "<case>", "exec"), ns)
    out = []
    for fn, args in calls:
        a = copy.deepcopy(args)
        try:
            r = ns[fn](*a)
            out.append(("ok", repr(r), repr(a)))
        except Exception as e:
            out.append(("raises", type(e).__name__, repr(a)))
    return out


def main():
    from ..normalize import ModuleNormalizer
    bad = 0
    for c in CASES:
        before = run_calls(ast.parse(c["src"]), c["calls"])
        t = ast.parse(c["src"])
        n = ModuleNormalizer(t, {"functions": [c["target"], "S." + c["target"], "S", "S.__init__", "run"], "constants": []})
        n.run()
        ast.fix_missing_locations(t)
        after = run_calls(t, c["calls"])
        fn = next(x for x in ast.walk(t) if isinstance(x, ast.FunctionDef) and x.name == c["target"])
        text = ast.unparse(fn)
        problems = []
        if before != after:
            problems.append("behaviour changed: %s -> %s" % (before, after))
        problems += ["expected %r in the normalised function" % m for m in c.get("must", []) if m not in text]
        problems += ["%r still in the normalised function" % m for m in c.get("must_not", []) if m in text]
        if problems:
            bad += 1
            print("NORMALISER CASE %r: FAILED\n   %s\n%s" % (c["name"], "\n   ".join(problems), text))
        else:
            print("NORMALISER CASE %r: holds (%d calls identical)" % (c["name"], len(c["calls"])))
    return 1 if bad else 0


if __name__ == "__main__":
    sys.exit(main())
