import collections, itertools, functools, math, copy, re
from collections import OrderedDict, defaultdict, namedtuple
from dataclasses import dataclass

Point = namedtuple("Point", ["x", "y"])

class Base(object):
    kind = "base"
    def __init__(self, a, *args, b=2, **kw):
        self.a, self.b, self.args, self.kw = a, b, args, kw
    @property
    def total(self): return self.a + self.b
    @total.setter
    def total(self, v): self.a = v - self.b
    @staticmethod
    def s(x): return x * 2
    @classmethod
    def make(cls, a): return cls(a)
    def __repr__(self): return "Base(%r)" % (self.a,)
    def __lt__(self, other): return self.a < other.a
    def __hash__(self): return hash(self.a)
    def __eq__(self, other): return isinstance(other, Base) and self.a == other.a
    def __getitem__(self, i): return (self.a, self.b)[i]
    def __len__(self): return 2
    def __contains__(self, x): return x in (self.a, self.b)

class Child(Base):
    kind = "child"
    def __init__(self, a):
        super().__init__(a, 7, 8, b=3, extra=True)
    def total2(self): return super(Child, self).total + 1

def gen(n):
    for i in range(n):
        if i % 2: continue
        yield i
    return

def t1():
    out = []
    c = Child(5)
    out.append(c.total); c.total = 10; out.append(c.a)
    out.append(Base.s(3)); out.append(Child.make(4).kind)
    out.append(sorted([Base(3), Base(1), Base(2)])[0].a)
    out.append(len({Base(1), Base(1), Base(2)}))
    out.append(c[1]); out.append(len(c)); out.append(3 in c)
    out.append(list(gen(6)))
    out.append([x * y for x in range(3) for y in range(2) if x != y])
    out.append({k: v for k, v in zip("abc", range(3))})
    out.append({x % 2 for x in range(5)})
    d = defaultdict(list); d["a"].append(1); out.append(dict(d))
    od = OrderedDict(); od["z"] = 1; od["a"] = 2; out.append(list(od.items()))
    p = Point(1, 2); out.append(p.x + p[1]); out.append(p._replace(x=5).x)
    try:
        raise ValueError("boom")
    except (KeyError, ValueError) as e:
        out.append(str(e))
    else:
        out.append("no")
    finally:
        out.append("fin")
    f = lambda x, y=2: x ** y
    out.append(f(3)); out.append(functools.reduce(lambda a, b: a + b, [1, 2, 3]))
    a, *rest = [1, 2, 3, 4]; out.append(rest)
    out.append("%s-%05.1f" % ("x", 3.14159)); out.append("{:>6.2f}|{!r}".format(2.5, "q")); out.append(f"{c.a:03d}{c!r}")
    i = 0
    while True:
        i += 1
        if i > 3: break
    else:
        out.append("never")
    out.append(i)
    out.append(any(x > 2 for x in range(5)) and all([1, 2]) or None)
    out.append(max([3, 1, 2], key=lambda v: -v)); out.append(sum(x for x in range(4)))
    out.append(list(itertools.chain([1], (2, 3)))); out.append(list(enumerate("ab", 1)))
    out.append(re.sub(r"\s+", " ", "a   b")); out.append(math.floor(2.7)); out.append(isinstance(c, (Base, int)))
    out.append(copy.deepcopy([1, [2]]))
    if (n := len(out)) > 5: out.append(n)
    x = 5; x //= 2; x **= 3; out.append(x)
    out.append(getattr(c, "missing", "dflt")); out.append(hasattr(c, "a")); setattr(c, "zz", 9); out.append(c.zz)
    out.append([*range(2), *"ab"]); out.append({**{"a": 1}, "b": 2})
    def inner(*a, **k): return (a, sorted(k.items()))
    out.append(inner(1, *[2, 3], z=1, **{"y": 2}))
    with open_ctx() as v: out.append(v)
    out.append(tuple(reversed([1, 2, 3]))); out.append("abc"[::-1]); out.append([1, 2, 3][-2:])
    out.append(type(c).__name__); out.append(c.__class__.__name__); out.append(Child.__name__)
    global G; G = 4; out.append(G)
    del out[0]
    assert out, "nonempty"
    return out

G = 1
import contextlib
@contextlib.contextmanager
def open_ctx():
    yield 42
