import math
import itertools
from collections import OrderedDict, defaultdict, deque, Counter

G = 10
REG = {}
LST = []


def register(name):
    REG[name] = len(REG)
    LST.append(name)
    return REG[name]


class A(object):
    count = 0
    table = {}

    def __init__(self, v=0):
        self.v = v
        A.count += 1
        self.table[v] = self

    def who(self):
        return "A"

    def chain(self):
        return [self.who()]

    def __eq__(self, o):
        return isinstance(o, A) and o.v == self.v

    def __ne__(self, o):
        return not self.__eq__(o)


class B(A):
    def who(self):
        return "B"

    def chain(self):
        return ["B"] + super(B, self).chain()


class C(B):
    def __init__(self, v=0, w=1):
        super(C, self).__init__(v)
        self.w = w

    def who(self):
        return "C" + str(self.w)

    @property
    def double(self):
        return self.w * 2

    @double.setter
    def double(self, x):
        self.w = x // 2


class Ctx(object):
    def __init__(self, log):
        self.log = log

    def __enter__(self):
        self.log.append("enter")
        return self

    def __exit__(self, a, b, c):
        self.log.append("exit:%s" % (a.__name__ if a else None))
        return False


def tf():
    try:
        return "try"
    finally:
        REG["finally"] = True


def nested_finally(log):
    for i in range(3):
        try:
            if i == 1:
                continue
            if i == 2:
                break
            log.append("body%d" % i)
        finally:
            log.append("fin%d" % i)
    else:
        log.append("else")
    return log


def exc_flow():
    out = []
    try:
        try:
            {}["k"]
        except KeyError as e:
            out.append("key")
            raise ValueError("v") from e
        finally:
            out.append("inner-finally")
    except (TypeError, ValueError) as e:
        out.append(type(e).__name__ + ":" + str(e))
    else:
        out.append("no")
    try:
        int("x")
    except Exception as e:
        out.append(type(e).__name__)
    try:
        [][1]
    except LookupError:
        out.append("lookup")
    try:
        1 / 0
    except ArithmeticError:
        out.append("arith")
    try:
        None.x
    except AttributeError:
        out.append("attr")
    try:
        raise RuntimeError
    except RuntimeError as e:
        out.append(repr(e.args))
    return out


def scoping():
    out = []
    x = 1
    fs = [lambda: x, lambda x=x: x]
    x = 2
    out.append([f() for f in fs])
    sq = [i * i for i in range(4)]
    i = "outer"
    out.append([i for i in range(2)] + [i])
    def outer():
        total = [0]
        def add(k):
            total[0] += k
            return total[0]
        return add
    a = outer(); a(2); out.append(a(3))
    global G
    G = G + 1
    out.append(G)
    gen = (j * 2 for j in range(3))
    out.append(next(gen)); out.append(list(gen))
    return out


def containers():
    out = []
    od = OrderedDict(); od["b"] = 1; od["a"] = 2; od.move_to_end("b"); out.append(list(od.items()))
    dd = defaultdict(list); dd["x"].append(1); dd["y"]; out.append(sorted(dd.items()))
    dq = deque([1, 2, 3], maxlen=3); dq.append(4); dq.appendleft(0); out.append(list(dq))
    out.append(Counter("abca").most_common(1))
    out.append(list(itertools.chain([1], (2, 3), "ab")))
    out.append(list(itertools.product([1, 2], "ab"))[:3])
    out.append(list(itertools.combinations(range(4), 2))[-1])
    out.append(list(zip(range(3), itertools.repeat("z"))))
    out.append(list(itertools.islice(itertools.count(5, 2), 3)))
    out.append([list(g) for k, g in itertools.groupby([1, 1, 2, 3, 3])])
    s = {3, 1, 2}; s.discard(9); s.add(1); out.append(sorted(s)); out.append(s <= {1, 2, 3, 4}); out.append(sorted(s ^ {1, 9}))
    l = list(range(10)); out.append(l[::-2]); out.append(l[-3:]); del l[2:8]; out.append(l); l *= 2; out.append(len(l))
    t = (1, 2) + (3,); out.append(t * 2); out.append(t.index(3)); out.append(t < (1, 2, 4))
    d = {"a": 1}; d2 = dict(d, b=2); d2.update({"c": 3}, d=4); out.append(sorted(d2)); out.append(d2.get("z", 0)); out.append(list(d2.values())[:2]); out.append({**d, "q": 0})
    a, *b = [1, 2, 3]; out.append((a, b)); (p, q), r = (1, 2), 3; out.append(p + q + r)
    out.append(sorted([(2, "b"), (1, "z"), (2, "a")])); out.append(sorted("bca", reverse=True)); out.append(max([1, 5, 3], key=lambda v: -v)); out.append(min([], default=None))
    out.append(any(x > 2 for x in [1, 3])); out.append(sum(x for x in range(4))); out.append(list(enumerate("ab", 1))); out.append(list(reversed([1, 2])))
    out.append(dict.fromkeys("ab", 0)); out.append(list(map(lambda a, b: a + b, [1, 2], [10, 20])))
    return out


def strings_numbers():
    out = []
    out.append("%5.2f|%-4d|%s|%r|%03d|%e" % (3.14159, 7, "s", "r", 5, 12345.678))
    out.append("{:>6.1f}|{:<5}|{:^5}|{:,}|{!r}|{:08.3f}|{:+d}".format(2.25, "ab", "c", 1234567, "q", 3.14159, 5))
    out.append(f"{1 + 1}|{'x':>3}|{3.14159:.2f}|{[1, 2]!r}|{'a' if True else 'b'}")
    out.append(" a b ".strip().split()); out.append("a,b,,c".split(",")); out.append("abc".replace("b", "")); out.append("AbC".lower() + "x".upper()); out.append("abc"[::-1])
    out.append("a" in "cat"); out.append("x".isdigit() or "12".isdigit()); out.append("hello".find("l")); out.append("-".join(str(i) for i in range(3))); out.append("a\tb".expandtabs(4))
    out.append("abc".startswith(("x", "a"))); out.append("line1\nline2".splitlines()); out.append("a=b=c".partition("=")); out.append("a=b=c".rsplit("=", 1)); out.append("%s" % (1,)); out.append(str(None) + str(True))
    out.append("pad".ljust(5, ".") + "|" + "pad".rjust(5) + "|" + "7".zfill(3)); out.append("Title case".title()); out.append(ord("a") + len(chr(98)))
    out.append((7 // 2, -7 // 2, 7 % -3, 2 ** -1, 2 ** 10, 7 / 2, int(3.9), int(-3.9), round(2.5), round(3.5), round(-0.5), round(1.2345, 2)))
    out.append((float("inf") > 1e308, math.isinf(float("-inf")), math.floor(-1.5), math.ceil(1.2), math.sqrt(16), math.pi > 3, abs(-2.5), divmod(-7, 2), pow(2, 3, 5)))
    out.append((1 < 2 < 3, 1 < 3 > 2, not 0, bool([]), bool([0]), None is None, 1 == 1.0, "1" == 1, [1] == [1], (1,) != (1,)))
    out.append((0.1 + 0.2 == 0.3, abs(0.1 + 0.2 - 0.3) < 1e-12, 1e3, 5e-324 > 0, int("0x1f", 16), int("  12 "), float(" 1.5 "), bin(5), hex(255), 10 >> 1, 1 << 4, 6 & 3, 6 | 3, 6 ^ 3, ~5))
    out.append((True + True, True and "x", False or None, 0 or [], "a" and "b", isinstance(True, int), type(1.0).__name__, type("s") is str))
    return out


def classes():
    out = []
    n0 = A.count
    c = C(3, w=4)
    out.append((c.chain(), c.who(), c.double, isinstance(c, A), isinstance(c, (int, B)), issubclass(C, A), type(c).__name__, c.__class__ is C))
    c.double = 10; out.append(c.w)
    out.append((A.count - n0, A.table is B.table, 3 in A.table, A(1) == A(1), A(1) != A(2), A(1) == 1, A(5) in [A(4), A(5)]))
    out.append((hasattr(c, "w"), hasattr(c, "zz"), getattr(c, "zz", "dflt"), callable(c.who), callable(c)))
    setattr(c, "dyn", 5); out.append(c.dyn); del c.dyn; out.append(hasattr(c, "dyn"))
    log = []
    with Ctx(log) as k:
        log.append("in:%s" % isinstance(k, Ctx))
    try:
        with Ctx(log):
            raise KeyError("x")
    except KeyError:
        log.append("caught")
    out.append(log)
    out.append(tf()); out.append(REG.get("finally")); out.append(nested_finally([]))
    out.append((register("a"), register("b"), LST, sorted(REG.items(), key=str)))
    m = A.who; out.append(m(c)); bm = c.who; out.append(bm())
    return out


def t4():
    return [exc_flow(), scoping(), containers(), strings_numbers(), classes()]
