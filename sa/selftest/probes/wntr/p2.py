import math

class MyErr(RuntimeError):
    def __init__(self, msg, code=3):
        super().__init__(msg)
        self.code = code

class Counter2(object):
    n_made = 0
    def __init__(self, items=None):
        self.items = list(items or [])
        Counter2.n_made += 1
    def __iter__(self):
        for x in self.items:
            yield x
    def __call__(self, k):
        return self.items[k]
    def __add__(self, o):
        return Counter2(self.items + list(o))
    def __bool__(self):
        return bool(self.items)
    def __enter__(self):
        self.items.append("in"); return self
    def __exit__(self, et, ev, tb):
        self.items.append("out"); return et is KeyError

def make_adders():
    return [lambda x, i=i: x + i for i in range(3)]

def counter():
    c = 0
    def inc(by=1):
        nonlocal c
        c += by
        return c
    return inc

def f_finally():
    try:
        return "try"
    finally:
        pass

def kwonly(a, *, b=1, c):
    return a + b + c

def t2():
    out = []
    try:
        try:
            raise MyErr("bad", code=9)
        except MyErr as e:
            out.append((str(e), e.code, isinstance(e, RuntimeError)))
            raise KeyError("k") from e
    except KeyError as e2:
        out.append(("key", e2.args))
    c = Counter2([3, 1, 2])
    out.append(list(c)); out.append(c(1)); out.append(list(c + [9])); out.append(bool(Counter2())); out.append(Counter2.n_made)
    with c as cc:
        out.append(cc is c)
        raise KeyError("swallowed")
    out.append(c.items[-2:])
    out.append([f(10) for f in make_adders()])
    inc = counter(); inc(); inc(5); out.append(inc())
    out.append(f_finally()); out.append(kwonly(1, c=3)); 
    d = {"b": 2, "a": 1}
    d.setdefault("c", []).append(3); d.update(e=5); out.append(sorted(d.items(), key=lambda kv: str(kv[1])))
    out.append(d.pop("zz", None)); out.append(list(d)); out.append("a" in d and "q" not in d)
    l = [5, 3, 8]; l.sort(key=lambda v: -v); l.insert(0, 1); l.remove(3); out.append((l, l.index(8)))
    l[1:2] = [7, 7]; out.append(l)
    out.append(list(zip(*[(1, 2), (3, 4)]))); out.append({1, 2} | {3} - {1}); out.append(1 < 2 <= 2 != 3)
    out.append((-7 // 2, -7 % 3, divmod(7, 2), round(2.675, 2), abs(-3), int("3"), float("1e3")))
    nan = float("nan"); out.append((nan == nan, nan != nan, math.isnan(nan), max(1, 2.5)))
    out.append("{a}-{b:>4}".format(a=1, b="x")); out.append("x".join(["a", "b"]).upper().startswith("AX")); out.append("a,b".split(",")[::-1])
    out.append("abc".encode("utf-8").decode("utf-8")); out.append("%d%%" % 5); out.append(str(1.0) + repr("s"))
    (a, (b, *c2)), d2 = (1, (2, 3, 4)), 5; out.append((a, b, c2, d2))
    x = 3 if out else 4; out.append(x)
    out.append([i for i in range(10) if i % 3 == 0][1:]); out.append(sum([[1], [2]], []))
    out.append(isinstance(True, int) and type(1) is int)
    out.append(sorted(["b", "A", "c"], key=str.lower, reverse=True))
    out.append(dict(zip("ab", (1, 2)))); out.append(list(map(str, [1, 2]))); out.append(list(filter(None, [0, 1, "", "x"])))
    out.append(min((3, "a"), (1, "b"))[1]); out.append(any([])); out.append(all([]))
    return out
