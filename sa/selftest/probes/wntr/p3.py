_CACHE = {}
class E(object):
    __slots__ = ('a',)
    def __init__(self):
        self.a = 1
    def get(self, m):
        if id(self) in _CACHE:
            return _CACHE[id(self)]
        _CACHE[id(self)] = [m[self]]
        return _CACHE[id(self)]
def t3():
    e = E(); f = E()
    return [e.get({e: 1}), e.get({e: 2}), f.get({f: 3}), len(_CACHE)]
