import abc
import enum
import logging
import warnings
import sys

logger = logging.getLogger(__name__)


class Status(enum.IntEnum):
    Closed = 0
    Open = 1
    Active = 2

    def __str__(self):
        return self.name

    @property
    def closed(self):
        return self is Status.Closed


class Kind(enum.Enum):
    a = (1, "first")
    b = (2, "second")

    @property
    def text(self):
        return self.value[1]

    @classmethod
    def parse(cls, s):
        for m in cls:
            if m.text == s:
                return m
        raise ValueError(s)


class Shape(metaclass=abc.ABCMeta):
    @abc.abstractmethod
    def area(self):
        pass

    def describe(self):
        return "%s with area %.1f" % (type(self).__name__, self.area())


class Sq(Shape):
    __slots__ = ("s",)

    def __init__(self, s):
        self.s = s

    def area(self):
        return self.s ** 2


class Vec(object):
    def __init__(self, *xs):
        self.xs = list(xs)

    def __add__(self, o):
        if isinstance(o, Vec):
            return Vec(*[a + b for a, b in zip(self.xs, o.xs)])
        if isinstance(o, (int, float)):
            return Vec(*[a + o for a in self.xs])
        return NotImplemented

    __radd__ = __add__

    def __iadd__(self, o):
        self.xs = (self + o).xs
        self.xs.append(100)
        return self

    def __mul__(self, k):
        return Vec(*[a * k for a in self.xs])

    def __rmul__(self, k):
        return Vec(*[k * a for a in self.xs])

    def __neg__(self):
        return Vec(*[-a for a in self.xs])

    def __getitem__(self, i):
        return self.xs[i]

    def __len__(self):
        return len(self.xs)

    def __eq__(self, o):
        return isinstance(o, Vec) and self.xs == o.xs

    def __repr__(self):
        return "Vec%r" % (tuple(self.xs),)

    def __call__(self, i=0):
        return self.xs[i]


class Lazy(object):
    def __init__(self):
        self.calls = []

    def __getattr__(self, name):
        if name.startswith("_"):
            raise AttributeError(name)
        self.calls.append(name)
        return name.upper()


class Reg(object):
    def __init__(self):
        self._d = {}

    def __setitem__(self, k, v):
        self._d[k] = v

    def __getitem__(self, k):
        return self._d[k]

    def __delitem__(self, k):
        del self._d[k]

    def __contains__(self, k):
        return k in self._d

    def __iter__(self):
        return iter(sorted(self._d))

    def __len__(self):
        return len(self._d)

    def __call__(self, kind=None):
        for k in self:
            if kind is None or isinstance(self._d[k], kind):
                yield k, self._d[k]


def acc(x, seen=[]):
    seen.append(x)
    return list(seen)


def fwd(*args, **kw):
    return tgt(*args, **kw)


def tgt(a, b=2, *rest, c=3, **more):
    return (a, b, rest, c, sorted(more.items()))


def fact(n):
    return 1 if n <= 1 else n * fact(n - 1)


def t5():
    out = []
    out.append((str(Status.Open), Status.Closed.closed, Status(2), Status["Open"] + 1, int(Status.Active), Status.Open == 1, sorted(Status, reverse=True)[0].name, [s.name for s in Status]))
    out.append(("%s" % Status.Closed, "{}".format(Status.Open), Status.Open.name.upper(), Status.Open in (Status.Open, 5), isinstance(Status.Open, int), Status.Open.value))
    out.append((Kind.parse("second").name, Kind.a.text, Kind.a is Kind.a, Kind.a == Kind.b, Kind.b.value[0], len(Kind), Kind["a"].text))
    try:
        Kind.parse("none")
    except ValueError as e:
        out.append("ValueError:%s" % e)
    try:
        Status(7)
    except ValueError:
        out.append("bad status")
    out.append(Sq(3).describe())
    try:
        Shape()
        out.append("abstract instantiated")
    except TypeError:
        out.append("abstract refused")
    v = Vec(1, 2)
    w = v
    w += Vec(1, 1)
    out.append((repr(v + 1), repr(1 + v), repr(2 * v), repr(v * 2), repr(-v), v is w, repr(w), len(v), v[0], v(1), v == Vec(2, 3, 100), bool(Vec()), [x for x in Vec(5, 6)], 6 in Vec(5, 6)))
    lz = Lazy(); out.append((lz.abc, lz.calls, hasattr(lz, "_p"), getattr(lz, "_q", None)))
    r = Reg(); r["b"] = 1; r["a"] = "s"; r["c"] = 2.5
    out.append((list(r), "a" in r, len(r), list(r(str)), [k for k, v in r((int, float))], r["b"]))
    del r["b"]; out.append(list(r))
    out.append((acc(1), acc(2), acc(3, []), acc(4)))
    out.append((fwd(1), fwd(1, 5, 6, 7, c=0, z=9), fwd(a=1, q=2)))
    try:
        tgt()
    except TypeError:
        out.append("missing arg")
    try:
        tgt(1, a=2)
    except TypeError:
        out.append("dup arg")
    out.append(fact(10))
    i = 0
    while i < 3:
        i += 1
        if i == 5:
            break
    else:
        out.append("while-else %d" % i)
    logger.warning("not shown %s", i)
    with warnings.catch_warnings():
        warnings.simplefilter("ignore")
        warnings.warn("w")
    out.append("%(a)s-%(b)03d" % {"a": "x", "b": 7})
    assert out, "never"
    try:
        assert not out, "msg"
    except AssertionError as e:
        out.append("assert:%s" % e)
    x = y = []
    x.append(1)
    out.append((y, x is y))
    a = b = 0
    a += 1
    out.append((a, b))
    m = [[0] * 2 for _ in range(2)]; m[0][1] = 5; out.append(m)
    m2 = [[0] * 2] * 2; m2[0][1] = 5; out.append(m2)
    out.append(sys.version_info[0] >= 3)
    return out
