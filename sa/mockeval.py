"""A Python model of the compiled evaluator (wntr/sim/aml/evaluator.{hpp,cpp}) for finite evaluation of the PYTHON side of the
algebraic modelling layer (aml.py / expr.py) by the in-house interpreter.

It implements the protocol the Python side speaks -- add_var / add_param / add_float, add_constraint / add_if_else_constraint with
add_leaf / add_fn_rpn_term / add_jac_rpn_term / add_condition_rpn_term / end_condition, remove_*, set_structure, evaluate,
evaluate_csr_jacobian, get_x, load_var_values_from_x -- and runs the reverse-Polish programs it is handed on a stack machine whose opcode
semantics are the documented ones (C15's rules R-C15-1 / R-C15-2 decide separately that the C++ constants and the C++ opcode chain agree with
them).  Misuse the C++ object would turn into memory corruption or a StructureException is reported as MockEvaluatorError: a leaf removed twice,
a leaf index outside the constraint's leaf list, a stack underflow, evaluation before set_structure.
"""
import math


class MockEvaluatorError(Exception):
    pass


OPS = {-1: "add", -2: "sub", -3: "mul", -4: "div", -5: "pow", -6: "abs", -7: "sign", -8: "if_else", -9: "inequality", -10: "exp", -11: "log",
       -12: "negation", -13: "sin", -14: "cos", -15: "tan", -16: "asin", -17: "acos", -18: "atan"}
ARITY = {"add": 2, "sub": 2, "mul": 2, "div": 2, "pow": 2, "abs": 1, "sign": 1, "if_else": 3, "inequality": 3, "exp": 1, "log": 1, "negation": 1,
         "sin": 1, "cos": 1, "tan": 1, "asin": 1, "acos": 1, "atan": 1}


def run_rpn(rpn, leaves):
    stack = []
    for term in rpn:
        term = int(term)
        if term >= 0:
            if term >= len(leaves):
                raise MockEvaluatorError("rpn refers to leaf %d of %d" % (term, len(leaves)))
            stack.append(float(leaves[term].value))
            continue
        op = OPS.get(term)
        if op is None:
            raise MockEvaluatorError("unknown opcode %d" % term)
        n = ARITY[op]
        if len(stack) < n:
            raise MockEvaluatorError("stack underflow at %s" % op)
        args = stack[-n:]
        del stack[-n:]
        try:
            if op == "add":
                r = args[0] + args[1]
            elif op == "sub":
                r = args[0] - args[1]
            elif op == "mul":
                r = args[0] * args[1]
            elif op == "div":
                r = args[0] / args[1] if args[1] != 0 else (float("nan") if args[0] == 0 else math.copysign(float("inf"), args[0]) * (1 if math.copysign(1, args[1]) > 0 else -1))
            elif op == "pow":
                try:
                    r = math.pow(args[0], args[1])
                except (ValueError, OverflowError):
                    r = float("nan")
            elif op == "abs":
                r = abs(args[0])
            elif op == "sign":
                r = 1.0 if args[0] >= 0 else -1.0
            elif op == "if_else":
                r = args[1] if args[0] == 1 else args[2]
            elif op == "inequality":
                r = 1.0 if args[1] <= args[0] <= args[2] else 0.0
            elif op == "negation":
                r = -args[0]
            else:
                try:
                    r = getattr(math, op)(args[0])
                except (ValueError, OverflowError):
                    r = float("nan")
        except ZeroDivisionError:
            r = float("nan")
        stack.append(r)
    if len(stack) != 1:
        raise MockEvaluatorError("program leaves %d values on the stack" % len(stack))
    return stack[0]


class CLeaf(object):
    _sa_mock = True
    _sa_foreign = True

    def __init__(self, kind, value, serial):
        self.kind, self.value, self.serial = kind, float(value), serial
        self.index = None
        self.alive = True

    def __repr__(self):
        return "<c%s #%d = %r>" % (self.kind, self.serial, self.value)


class CConstraint(object):
    _sa_mock = True
    _sa_foreign = True
    conditional = False

    def __init__(self, serial):
        self.serial = serial
        self.leaves, self.fn_rpn, self.jac_rpn = [], [], {}
        self.index = None

    def add_leaf(self, leaf):
        if not isinstance(leaf, CLeaf) or not leaf.alive:
            raise MockEvaluatorError("add_leaf of %r" % (leaf,))
        self.leaves.append(leaf)

    def add_fn_rpn_term(self, term):
        self.fn_rpn.append(int(term))

    def add_jac_rpn_term(self, v, term):
        if not isinstance(v, CLeaf) or v.kind != "var":
            raise MockEvaluatorError("add_jac_rpn_term for %r" % (v,))
        self.jac_rpn.setdefault(v, []).append(int(term))

    def jac_vars(self):
        return list(self.jac_rpn)


class CIfElse(object):
    _sa_mock = True
    _sa_foreign = True
    conditional = True

    def __init__(self, serial):
        self.serial = serial
        self.leaves = []
        self.cur_cond, self.cur_fn, self.cur_jac = [], [], {}
        self.conditions, self.fns, self.jacs = [], [], []
        self.index = None

    add_leaf = CConstraint.add_leaf

    def add_condition_rpn_term(self, term):
        self.cur_cond.append(int(term))

    def add_fn_rpn_term(self, term):
        self.cur_fn.append(int(term))

    def add_jac_rpn_term(self, v, term):
        if not isinstance(v, CLeaf) or v.kind != "var":
            raise MockEvaluatorError("add_jac_rpn_term for %r" % (v,))
        self.cur_jac.setdefault(v, []).append(int(term))

    def end_condition(self):
        self.conditions.append(self.cur_cond)
        self.fns.append(self.cur_fn)
        self.jacs.append(self.cur_jac)
        self.cur_cond, self.cur_fn, self.cur_jac = [], [], {}

    def jac_vars(self):
        out = []
        for j in self.jacs:
            for v in j:
                if v not in out:
                    out.append(v)
        return out

    def branch(self):
        for k, cond in enumerate(self.conditions):
            if not cond or run_rpn(cond, self.leaves) == 1:
                return k
        raise MockEvaluatorError("no branch of the conditional constraint applies (no final expression)")


class MockEvaluator(object):
    _sa_mock = True
    _sa_foreign = True

    def __init__(self):
        self._serial = 0
        self.leaves = {"var": [], "param": [], "float": []}
        self.cons = []
        self.structure = False
        self.nnz = 0
        self.calls = []

    def _new(self):
        self._serial += 1
        return self._serial

    def _add_leaf(self, kind, value):
        leaf = CLeaf(kind, value, self._new())
        self.leaves[kind].append(leaf)
        self.structure = False
        self.calls.append(("add_" + kind,))
        return leaf

    def add_var(self, value):
        return self._add_leaf("var", value)

    def add_param(self, value):
        return self._add_leaf("param", value)

    def add_float(self, value):
        return self._add_leaf("float", value)

    def _remove_leaf(self, kind, leaf):
        if not isinstance(leaf, CLeaf) or leaf.kind != kind or leaf not in self.leaves[kind]:
            raise MockEvaluatorError("remove_%s of %r, which this evaluator does not hold" % (kind, leaf))
        users = [c for c in self.cons if leaf in c.leaves]
        if users:
            raise MockEvaluatorError("remove_%s of %r while constraint #%d still lists it as a leaf (dangling pointer)" % (kind, leaf, users[0].serial))
        self.leaves[kind].remove(leaf)
        leaf.alive = False
        self.structure = False
        self.calls.append(("remove_" + kind,))

    def remove_var(self, leaf):
        self._remove_leaf("var", leaf)

    def remove_param(self, leaf):
        self._remove_leaf("param", leaf)

    def remove_float(self, leaf):
        self._remove_leaf("float", leaf)

    def add_constraint(self):
        c = CConstraint(self._new())
        self.cons.append(c)
        self.structure = False
        return c

    def add_if_else_constraint(self):
        c = CIfElse(self._new())
        self.cons.append(c)
        self.structure = False
        return c

    def _remove_con(self, c, conditional):
        if c not in self.cons or c.conditional != conditional:
            raise MockEvaluatorError("remove_%sconstraint of %r, which this evaluator does not hold" % ("if_else_" if conditional else "", c))
        self.cons.remove(c)
        self.structure = False

    def remove_constraint(self, c):
        self._remove_con(c, False)

    def remove_if_else_constraint(self, c):
        self._remove_con(c, True)

    def remove_structure(self):
        self.structure = False

    def set_structure(self):
        # plain constraints first, then conditional ones (as evaluator.cpp lays them out); variables in creation order
        for i, v in enumerate(self.leaves["var"]):
            v.index = i
        ordered = [c for c in self.cons if not c.conditional] + [c for c in self.cons if c.conditional]
        nnz = 0
        for i, c in enumerate(ordered):
            c.index = i
            for leaf in c.leaves:
                if not leaf.alive:
                    raise MockEvaluatorError("constraint #%d lists a leaf that was removed" % c.serial)
            for v in c.jac_vars():
                if not v.alive or v not in self.leaves["var"]:
                    raise MockEvaluatorError("constraint #%d has a Jacobian entry for a variable that was removed" % c.serial)
            nnz += len(c.jac_vars())
        self._ordered = ordered
        self.nnz = nnz
        self.structure = True

    def _need(self):
        if not self.structure:
            raise MockEvaluatorError("StructureException: set_structure was not called after the last change")

    def get_x(self, n):
        self._need()
        if n != len(self.leaves["var"]):
            raise MockEvaluatorError("get_x(%r) with %d variables" % (n, len(self.leaves["var"])))
        return [v.value for v in self.leaves["var"]]

    def load_var_values_from_x(self, x):
        self._need()
        x = list(x.v) if hasattr(x, "v") else list(x)
        if len(x) != len(self.leaves["var"]):
            raise MockEvaluatorError("load_var_values_from_x: %d values for %d variables" % (len(x), len(self.leaves["var"])))
        for v, val in zip(self.leaves["var"], x):
            v.value = float(val)

    def evaluate(self, n):
        self._need()
        if n != len(self._ordered):
            raise MockEvaluatorError("evaluate(%r) with %d constraints" % (n, len(self._ordered)))
        out = []
        for c in self._ordered:
            if c.conditional:
                out.append(run_rpn(c.fns[c.branch()], c.leaves))
            else:
                out.append(run_rpn(c.fn_rpn, c.leaves))
        return out

    def evaluate_csr_jacobian(self, nvals, ncols, nrows_plus_1):
        self._need()
        if nvals != self.nnz or ncols != self.nnz or nrows_plus_1 != len(self._ordered) + 1:
            raise MockEvaluatorError("evaluate_csr_jacobian(%r, %r, %r) with nnz %d and %d constraints" % (nvals, ncols, nrows_plus_1, self.nnz, len(self._ordered)))
        vals, cols, indptr = [], [], [0]
        for c in self._ordered:
            vs = sorted(c.jac_vars(), key=lambda v: v.index)
            k = c.branch() if c.conditional else None
            for v in vs:
                prog = c.jacs[k].get(v) if c.conditional else c.jac_rpn[v]
                if prog is None:
                    raise MockEvaluatorError("conditional constraint #%d: branch %d has no Jacobian program for a variable another branch has" % (c.serial, k))
                vals.append(run_rpn(prog, c.leaves))
                cols.append(v.index)
            indptr.append(len(vals))
        return vals, cols, indptr
