"""E3 -- effects: a name-and-receiver based call graph over a fixed universe of modules and
per-function attribute write sets.

Resolution rules (dynamic Python, no type checker available offline):
  * `self.m(...)`            -> method m of the enclosing class, its bases and its subclasses (universe classes)
  * `a.b.c.f(...)` with a dotted module path of the package, or `f(...)` -> module-level function f
  * `Cls(...)`               -> Cls.__init__
  * `<expr>.m(...)`          -> every universe method named m, unless m is a container/builtin method name
                                that no *model-side* universe class defines (stop list)
  * functions stored in a registry through `<x>.add(obj, attr, F)` are treated as called by the
    registry's dispatcher (`indirect` table supplied by the rule module)
Unresolved calls are counted and reported; rules state a bound on them.
"""
import ast

from .src import walk, dotted, unparse, const

STOP = {"append", "extend", "insert", "pop", "get", "items", "keys", "values", "setdefault", "remove", "discard", "clear",
        "sort", "copy", "format", "join", "split", "lower", "upper", "strip", "startswith", "endswith", "replace", "index",
        "count", "encode", "decode", "write", "read", "close", "flush", "seek", "tell", "readline", "readlines",
        "debug", "info", "warning", "error", "log", "warn", "getEffectiveLevel", "isEnabledFor",
        "astype", "reshape", "tolist", "sum", "max", "min", "mean", "any", "all", "dot", "transpose", "fill",
        "union", "intersection", "difference", "issubset", "isdisjoint", "symmetric_difference",
        "group", "match", "search", "findall", "sub", "perf_counter", "time", "array", "zeros", "ones", "isnan", "floor", "ceil",
        "sqrt", "abs", "round", "interp", "loc", "iloc", "to_csv", "tocsr", "tocoo", "tocsc", "diagonal", "setdiag", "eliminate_zeros"}


class Fn(object):
    __slots__ = ("rel", "cls", "name", "node", "qual")

    def __init__(self, rel, cls, name, node):
        self.rel, self.cls, self.name, self.node = rel, cls, name, node
        self.qual = "%s::%s%s" % (rel, (cls + ".") if cls else "", name)

    def __repr__(self):
        return self.qual


class Universe(object):
    def __init__(self, repo, modules, indirect=None, stop_extra=(), recv_types=None, external_roots=()):
        self.repo = repo
        self.modules = list(modules)
        self.fns = []                 # all Fn
        self.by_name = {}             # name -> [Fn]  (methods and functions)
        self.mod_funcs = {}           # (rel, name) -> Fn
        self.cls_methods = {}         # cls -> {name: [Fn]}  (own methods; properties keep getter+setter)
        self.cls_bases = {}           # cls -> [base names]
        self.cls_rel = {}
        self.indirect = dict(indirect or {})   # dispatcher qual suffix -> list of Fn quals / predicate
        self.stop = set(STOP) | set(stop_extra)
        self.recv_types = dict(recv_types or {})   # receiver text suffix -> class name (frozen, confirmed by reading)
        self.external_roots = set(external_roots)
        self.aliases = {}             # rel -> {local name: module rel}
        for rel in self.modules:
            t = repo.tree(rel)
            al = {}
            pkg = rel.rsplit("/", 1)[0]
            for n in ast.walk(t):
                if isinstance(n, ast.ImportFrom):
                    base = (n.module or "").replace(".", "/")
                    if n.level:
                        up = rel.split("/")[:-n.level]
                        base = "/".join(up + ([base] if base else []))
                    for a in n.names:
                        cand = base + "/" + a.name + ".py"
                        if cand in self.modules:
                            al[a.asname or a.name] = cand
                elif isinstance(n, ast.Import):
                    for a in n.names:
                        cand = a.name.replace(".", "/") + ".py"
                        if cand in self.modules and a.asname:
                            al[a.asname] = cand
                        cand2 = a.name.replace(".", "/") + "/aml.py"   # `import wntr.sim.aml as aml` -> package re-exporting aml.py / expr.py
                        if a.asname and cand2 in self.modules:
                            al[a.asname] = cand2
            self.aliases[rel] = al
        for rel in self.modules:
            t = repo.tree(rel)
            for n in t.body:
                if isinstance(n, (ast.FunctionDef, ast.AsyncFunctionDef)):
                    self._add(rel, None, n)
                elif isinstance(n, ast.ClassDef):
                    self._add_class(rel, n)

    def _add_class(self, rel, c, prefix=""):
        name = c.name
        self.cls_bases[name] = [b.id if isinstance(b, ast.Name) else (b.attr if isinstance(b, ast.Attribute) else None) for b in c.bases]
        for b in c.bases:    # six.with_metaclass(Meta, Base)
            if isinstance(b, ast.Call):
                for a in b.args[1:]:
                    if isinstance(a, ast.Name):
                        self.cls_bases[name].append(a.id)
        self.cls_rel[name] = rel
        self.cls_methods.setdefault(name, {})
        for n in c.body:
            if isinstance(n, (ast.FunctionDef, ast.AsyncFunctionDef)):
                self._add(rel, name, n)
            elif isinstance(n, ast.ClassDef):
                self._add_class(rel, n)

    def _add(self, rel, cls, node):
        f = Fn(rel, cls, node.name, node)
        node._rel = rel
        node._qual = (cls + "." if cls else "") + node.name
        self.fns.append(f)
        self.by_name.setdefault(node.name, []).append(f)
        if cls is None:
            self.mod_funcs[(rel, node.name)] = f
        else:
            self.cls_methods[cls].setdefault(node.name, []).append(f)

    # -------------------------------------------------------------- hierarchy
    def mro(self, cls):
        seen, todo = [], [cls]
        while todo:
            c = todo.pop(0)
            if c in seen or c not in self.cls_methods:
                continue
            seen.append(c)
            todo += [b for b in self.cls_bases.get(c, []) if b]
        return seen

    def subclasses(self, cls):
        out = [c for c in self.cls_methods if cls in self.mro(c) and c != cls]
        return out

    def lookup_method(self, cls, name):
        out = []
        for c in self.mro(cls):
            if name in self.cls_methods.get(c, {}):
                out += self.cls_methods[c][name]
                break
        for c in self.subclasses(cls):
            out += self.cls_methods.get(c, {}).get(name, [])
        return out

    def find(self, qual_suffix):
        return [f for f in self.fns if f.qual.endswith(qual_suffix)]

    # -------------------------------------------------------------- call resolution
    def module_of_dotted(self, d):
        """'wntr.sim.hydraulics.update_tank_heads' -> ('wntr/sim/hydraulics.py','update_tank_heads') if in universe"""
        parts = d.split(".")
        for i in range(len(parts) - 1, 0, -1):
            rel = "/".join(parts[:i]) + ".py"
            if rel in self.modules and i == len(parts) - 1:
                return rel, parts[-1]
            rel2 = "/".join(parts[:i]) + "/__init__.py"
        return None

    def resolve(self, f, call):
        """-> (list of Fn, kind)  kind in resolved / external / unresolved"""
        fn = call.func
        if isinstance(fn, ast.Name):
            nm = fn.id
            if (f.rel, nm) in self.mod_funcs:
                return [self.mod_funcs[(f.rel, nm)]], "resolved"
            if nm in self.cls_methods:
                return list(self.cls_methods[nm].get("__init__", [])) or [], "resolved"
            # imported function of another universe module (from x import f)
            cands = [g for g in self.by_name.get(nm, []) if g.cls is None]
            if cands:
                return cands, "resolved"
            return [], "external"
        if isinstance(fn, ast.Attribute):
            nm = fn.attr
            recv = fn.value
            d = dotted(fn)
            if isinstance(recv, ast.Name) and recv.id == "self" and f.cls:
                ms = self.lookup_method(f.cls, nm)
                if ms:
                    return ms, "resolved"
            if isinstance(recv, ast.Call) and isinstance(recv.func, ast.Name) and recv.func.id == "super" and f.cls:
                out = []
                for c in self.mro(f.cls)[1:]:
                    if nm in self.cls_methods.get(c, {}):
                        out = self.cls_methods[c][nm]
                        break
                return out, "resolved" if out else "external"
            rtxt = d.rsplit(".", 1)[0] if d and "." in d else None
            if rtxt:
                for suf, cn in self.recv_types.items():
                    if rtxt == suf or rtxt.endswith("." + suf):
                        ms = self.lookup_method(cn, nm)
                        if ms:
                            return ms, "resolved"
                if rtxt.split(".")[0] in self.external_roots:
                    return [], "external"
            if isinstance(recv, ast.Name) and recv.id in self.aliases.get(f.rel, {}):
                mrel = self.aliases[f.rel][recv.id]
                if (mrel, nm) in self.mod_funcs:
                    return [self.mod_funcs[(mrel, nm)]], "resolved"
                if nm in self.cls_methods:
                    return list(self.cls_methods[nm].get("__init__", [])), "resolved"
                cands = [g for g in self.by_name.get(nm, []) if g.cls is None]
                if cands:
                    return cands, "resolved"
                return [], "external"
            if d:
                m = self.module_of_dotted(d)
                if m and m in self.mod_funcs:
                    return [self.mod_funcs[m]], "resolved"
                # Class.method / module.Class(...)
                parts = d.split(".")
                if parts[-1] in self.cls_methods and len(parts) >= 1:
                    return list(self.cls_methods[parts[-1]].get("__init__", [])), "resolved"
                if len(parts) >= 2 and parts[-2] in self.cls_methods:
                    ms = self.lookup_method(parts[-2], nm)
                    if ms:
                        return ms, "resolved"
                if parts[0] in ("np", "numpy", "math", "logging", "logger", "warnings", "os", "sys", "time", "scipy", "sp", "pd", "pandas", "nx", "re", "six", "enum", "copy", "json"):
                    return [], "external"
            if nm in self.stop:
                return [], "external"
            cands = [g for g in self.by_name.get(nm, []) if g.cls is not None]
            if cands:
                return cands, "byname"
            cands = [g for g in self.by_name.get(nm, []) if g.cls is None]
            if cands and d and d.split(".")[0] == "wntr":
                return cands, "resolved"
            return [], "unresolved"
        return [], "unresolved"

    def reachable(self, roots, extra_edges=None, max_fns=5000):
        """-> (set of Fn, stats, edges) transitive closure from roots."""
        seen = {}
        todo = list(roots)
        stats = {"resolved": 0, "byname": 0, "external": 0, "unresolved": 0, "unresolved_names": {}}
        edges = {}
        while todo:
            f = todo.pop()
            if f.qual in seen:
                continue
            seen[f.qual] = f
            if len(seen) > max_fns:
                break
            outs = []
            for n in walk(f.node, skip_nested=False):
                if isinstance(n, ast.Call):
                    tg, kind = self.resolve(f, n)
                    stats[kind] += 1
                    if kind == "unresolved":
                        nm = unparse(n.func)[:60]
                        stats["unresolved_names"][nm] = stats["unresolved_names"].get(nm, 0) + 1
                    outs += tg
                # property access of universe classes is not followed (getters are pure by convention; checked separately)
            for suffix, targets in self.indirect.items():
                if f.qual.endswith(suffix):
                    for t in targets:
                        outs += self.find(t) if isinstance(t, str) else list(t(self))
            edges[f.qual] = sorted({g.qual for g in outs})
            for g in outs:
                if g.qual not in seen:
                    todo.append(g)
        return seen, stats, edges


# ------------------------------------------------------------------ writes
def store_targets(stmt):
    if isinstance(stmt, ast.Assign):
        tg = stmt.targets
    elif isinstance(stmt, (ast.AugAssign, ast.AnnAssign)):
        tg = [stmt.target]
    elif isinstance(stmt, ast.Delete):
        tg = stmt.targets
    elif isinstance(stmt, (ast.For, ast.AsyncFor)):
        tg = [stmt.target]
    elif isinstance(stmt, ast.With):
        tg = [i.optional_vars for i in stmt.items if i.optional_vars is not None]
    else:
        return []
    out = []
    for t in tg:
        out += list(t.elts) if isinstance(t, (ast.Tuple, ast.List)) else [t]
    return out


def writes(fnode):
    """[(receiver_expr, attr or None, attr_expr or None, via, node)] for attribute stores, subscript stores through an
    attribute (x.a[i] = v counts as a write of a), setattr(x, name, v) and in-place container mutation x.a.append(..)."""
    out = []
    for n in walk(fnode, skip_nested=False):
        for t in store_targets(n) if isinstance(n, ast.stmt) else []:
            base = t
            via = "store"
            while isinstance(base, ast.Subscript):
                base = base.value
                via = "item"
            if isinstance(base, ast.Attribute):
                out.append((base.value, base.attr, None, via, n))
        if isinstance(n, ast.Call):
            if isinstance(n.func, ast.Name) and n.func.id == "setattr" and len(n.args) >= 2:
                a = const(n.args[1])
                out.append((n.args[0], a if isinstance(a, str) else None, n.args[1], "setattr", n))
            elif isinstance(n.func, ast.Attribute) and n.func.attr in ("append", "extend", "insert", "pop", "remove", "clear", "update", "add", "discard", "sort", "reverse") \
                    and isinstance(n.func.value, ast.Attribute):
                out.append((n.func.value.value, n.func.value.attr, None, "mutate:" + n.func.attr, n))
    return out
