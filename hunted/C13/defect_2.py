import sys, os; sys.path.insert(0, os.getcwd())
# C13 defect 2: a pattern whose multipliers were assigned as integers through the
# Pattern.multipliers setter cannot be written with write_json (TypeError: int64), so the
# JSON representation does not round-trip the model.  Pattern.__init__ casts to float64,
# the setter does not.
import io, warnings
warnings.simplefilter('ignore')
import wntr

wn = wntr.network.WaterNetworkModel()
wn.add_pattern('onoff', [1.0, 0.0])                   # fine: __init__ casts to float64
wn.get_pattern('onoff').multipliers = [1, 0, 0, 1]    # setter keeps dtype int64
wn.add_junction('j1', base_demand=0.01, demand_pattern='onoff', elevation=5.0)
wn.add_reservoir('r1', base_head=30.0)
wn.add_pipe('p1', 'r1', 'j1')

buf = io.StringIO()
try:
    wntr.network.write_json(wn, buf)
except TypeError as e:
    mult = wntr.network.to_dict(wn)['patterns'][0]['multipliers']
    print('FAIL: write_json raises TypeError(%s); to_dict multipliers element type = %s'
          % (e, type(mult[0]).__name__))
    sys.exit(1)
buf.seek(0)
wn2 = wntr.network.read_json(buf)
got = [float(x) for x in wn2.get_pattern('onoff').multipliers]
if got != [1.0, 0.0, 0.0, 1.0]:
    print('FAIL: multipliers after round trip = %s, expected [1, 0, 0, 1]' % got)
    sys.exit(1)
import json
d1 = json.loads(json.dumps(wntr.network.to_dict(wn)))
d2 = json.loads(json.dumps(wntr.network.to_dict(wn2)))
if d1 != d2:
    print('FAIL: dictionaries differ after JSON round trip')
    sys.exit(1)
print('PASS')
