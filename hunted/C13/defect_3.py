import sys, os; sys.path.insert(0, os.getcwd())
# C13 defect 3: a rule whose action targets a node (the leak_status action that add_leak
# creates, turned into a rule by convert_controls_to_rules or written directly as a Rule)
# is written by to_dict as "JUNCTION j1 LEAK_STATUS IS True" but from_dict cannot read it
# back: _EpanetRule.generate_control looks every action target up as a link -> KeyError.
# The sibling path for simple controls (_read_control_line) does handle JUNCTION/TANK.
import io, json, warnings
warnings.simplefilter('ignore')
import wntr
from wntr.network import controls as C

def build(as_rules):
    wn = wntr.network.WaterNetworkModel()
    wn.add_reservoir('r1', base_head=50.0)
    wn.add_junction('j1', base_demand=0.01, elevation=5.0)
    wn.add_tank('t1', elevation=20.0, init_level=3.0, min_level=0.0, max_level=6.0, diameter=10.0)
    wn.add_pipe('p1', 'r1', 'j1')
    wn.add_pipe('p2', 'j1', 't1')
    wn.get_node('j1').add_leak(wn, area=0.01, discharge_coeff=0.75, start_time=3600, end_time=7200)
    wn.get_node('t1').add_leak(wn, area=0.02, start_time=1800)
    if as_rules:
        wn.convert_controls_to_rules(priority=3)
    return wn

# sanity: with simple controls the same leaks do round-trip
wn0 = build(False)
d0 = json.loads(json.dumps(wntr.network.to_dict(wn0)))
assert json.loads(json.dumps(wntr.network.to_dict(wntr.network.from_dict(d0)))) == \
       json.loads(json.dumps(wntr.network.to_dict(wn0)))

wn = build(True)
d1 = json.loads(json.dumps(wntr.network.to_dict(wn)))
rules = [c for c in d1['controls'] if c['type'] == 'rule']
assert len(rules) == 3, rules
try:
    buf = io.StringIO(); wntr.network.write_json(wn, buf); buf.seek(0)
    wn2 = wntr.network.read_json(buf)
except Exception as e:
    print('FAIL: read_json/from_dict of a model with %d leak rules (e.g. then_actions=%s) raises %s: %s'
          % (len(rules), rules[0]['then_actions'], type(e).__name__, e))
    sys.exit(1)
d2 = json.loads(json.dumps(wntr.network.to_dict(wn2)))
if d1 != d2:
    print('FAIL: controls differ: %s vs %s' % (d1['controls'], d2['controls']))
    sys.exit(1)
act = list(wn2.controls())[0][1].actions()[0]
if act.target()[0] is not wn2.get_node('j1') or act.target()[1] != 'leak_status':
    print('FAIL: action target after round trip is %r' % (act.target(),))
    sys.exit(1)
print('PASS')
