import sys, os; sys.path.insert(0, os.getcwd())
# C13 defect 1: a pump efficiency curve ([ENERGY] "Pump <id> Efficiency <curve>") does not
# survive to_dict/from_dict or write_json/read_json: the re-created pump holds a plain dict
# (a stale copy of the curve) instead of the model's Curve, and the model can no longer be
# written to an INP file.
import io, tempfile, warnings
warnings.simplefilter('ignore')
import wntr
from wntr.network.elements import Curve

txt = open(os.path.join('examples', 'networks', 'Net1.inp')).read()
txt = txt.replace('[ENERGY]', '[ENERGY]\n Pump 9 Efficiency E1', 1)
txt = txt.replace('[CURVES]', '[CURVES]\n E1 0 50\n E1 1500 80\n E1 3000 60', 1)
tmp = tempfile.mkdtemp()
inp = os.path.join(tmp, 'net1_eff.inp')
open(inp, 'w').write(txt)

wn = wntr.network.WaterNetworkModel(inp)
eff0 = wn.get_link('9').efficiency
assert isinstance(eff0, Curve) and eff0 is wn.get_curve('E1'), 'input not as intended'

buf = io.StringIO()
wntr.network.write_json(wn, buf)
buf.seek(0)
wn2 = wntr.network.read_json(buf)
wn3 = wntr.network.from_dict(wntr.network.to_dict(wn))

problems = []
for label, m in (('read_json', wn2), ('from_dict', wn3)):
    eff = m.get_link('9').efficiency
    if not (isinstance(eff, Curve) and eff == eff0 and eff is m.get_curve('E1')):
        problems.append('%s: pump 9 efficiency is %s, expected the Curve E1 of the model'
                        % (label, type(eff).__name__))
    try:
        wntr.network.write_inpfile(m, os.path.join(tmp, label + '.inp'))
    except Exception as e:
        problems.append('%s: write_inpfile of the re-created model raises %s: %s'
                        % (label, type(e).__name__, e))
# the original can be written
wntr.network.write_inpfile(wn, os.path.join(tmp, 'orig.inp'))

if problems:
    print('FAIL: ' + ' | '.join(problems))
    sys.exit(1)
print('PASS')
