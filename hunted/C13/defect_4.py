import sys, os; sys.path.insert(0, os.getcwd())
# C13 defect 4: the condition of a rule is flattened to text without grouping, so
# Or(And(A, B), C) is written as "A AND B OR C" and read back as And(A, Or(B, C)).
# The dictionary of the re-created model differs and the rule fires in different states.
import json, warnings
warnings.simplefilter('ignore')
import wntr
from wntr.network import controls as C

wn = wntr.network.WaterNetworkModel()
wn.add_reservoir('r1', base_head=50.0)
wn.add_junction('j1', base_demand=0.01, elevation=5.0)
wn.add_tank('t1', elevation=20.0, init_level=3.0, min_level=0.0, max_level=6.0, diameter=10.0)
wn.add_pipe('p1', 'r1', 'j1')
wn.add_pipe('p2', 'j1', 't1')
A = C.ValueCondition(wn.get_node('t1'), 'level', '<', 2.0)
B = C.ValueCondition(wn.get_node('j1'), 'pressure', '<', 10.0)
Cc = C.ValueCondition(wn.get_link('p2'), 'flow', '>', 0.05)
cond = C.OrCondition(C.AndCondition(A, B), Cc)          # (A and B) or C
wn.add_control('r', C.Rule(cond, [C.ControlAction(wn.get_link('p1'), 'status', 0)], priority=3))

d1 = json.loads(json.dumps(wntr.network.to_dict(wn)))
wn2 = wntr.network.from_dict(json.loads(json.dumps(d1)))
d2 = json.loads(json.dumps(wntr.network.to_dict(wn2)))

def truth(m, level, pressure, flow):
    t = m.get_node('t1'); t._head = t.elevation + level
    m.get_node('j1')._pressure = pressure
    m.get_link('p2')._flow = flow
    return bool(m.get_control('r').condition.evaluate())

# state: A false (level 4 >= 2), B false (pressure 30), C true (flow 0.1)
o = truth(wn, 4.0, 30.0, 0.1)
r = truth(wn2, 4.0, 30.0, 0.1)
msgs = []
if d1 != d2:
    msgs.append('condition text %r became %r' % (d1['controls'][0]['condition'], d2['controls'][0]['condition']))
if repr(wn.get_control('r').condition) != repr(wn2.get_control('r').condition):
    msgs.append('structure %s became %s' % (
        type(wn.get_control('r').condition).__name__, type(wn2.get_control('r').condition).__name__))
if o != r:
    msgs.append('with level=4, pressure=30, flow=0.1 the original condition is %s, the re-created one %s' % (o, r))
if msgs:
    print('FAIL: ' + ' | '.join(msgs))
    sys.exit(1)
print('PASS')
