import sys, os; sys.path.insert(0, os.getcwd())
# C01, DD clause: delivered demand == sum_i base_i * pattern_i(t + pattern_start) * demand_multiplier.
# A NON-wrapping pattern with a single multiplier (what Pattern.binary_pattern returns for a one-step
# pulse) is documented to be 0.0 once it is exhausted; Pattern.at() returns multipliers[0] forever,
# so the WNTRSimulator keeps delivering the pulse demand at every later time step.
import warnings; warnings.simplefilter('ignore')
import wntr
from wntr.network.elements import Pattern

wn = wntr.network.WaterNetworkModel()
t = wn.options.time
t.duration = 6 * 3600; t.hydraulic_timestep = 3600; t.report_timestep = 3600; t.pattern_timestep = 3600
wn.options.hydraulic.demand_model = 'DD'
wn.add_reservoir('R', base_head=50.0)
wn.add_junction('J1', base_demand=0.010, elevation=5.0)
wn.add_junction('J2', base_demand=0.005, elevation=3.0)
wn.add_pipe('P1', 'R', 'J1', length=200, diameter=0.3)
wn.add_pipe('P2', 'J1', 'J2', length=200, diameter=0.2)
# one-hour pulse of 0.02 m3/s at J2 during the first pattern step only
pulse = Pattern.binary_pattern('pulse', start_time=0, end_time=3600, step_size=3600, duration=3600)
assert list(pulse.multipliers) == [1.0] and pulse.wrap is False
wn.add_pattern('pulse', pulse)
wn.get_node('J2').add_demand(0.020, 'pulse', 'pulse')

res = wntr.sim.WNTRSimulator(wn).run_sim()
dem = res.node['demand']; flow = res.link['flowrate']

def multiplier(pat, time):
    """documented pattern semantics: step k = time // pattern_timestep; wrap -> k mod n; no wrap -> 0.0 past the end"""
    if pat is None or len(pat.multipliers) == 0:
        return 1.0
    k = int(time // wn.options.time.pattern_timestep); n = len(pat.multipliers)
    if pat.wrap:
        return pat.multipliers[k % n]
    return pat.multipliers[k] if 0 <= k < n else 0.0

bad = []
for time in dem.index:
    # node balance (holds): inflow - outflow == demand
    assert abs(flow.loc[time, 'P2'] - dem.loc[time, 'J2']) < 1e-5
    exp = sum(d.base_value * multiplier(d.pattern, time + wn.options.time.pattern_start)
              for d in wn.get_node('J2').demand_timeseries_list) * wn.options.hydraulic.demand_multiplier
    if abs(exp - dem.loc[time, 'J2']) > 1e-9:
        bad.append((int(time), round(exp, 6), round(float(dem.loc[time, 'J2']), 6)))
# the sibling accessor agrees with the documented semantics: pulse[1] == 0.0
assert pulse[0] == 1.0 and pulse[1] == 0.0
if bad:
    print('FAIL: J2 delivered demand != sum(base*multiplier) at (time, expected, delivered):', bad)
    sys.exit(1)
print('PASS')
