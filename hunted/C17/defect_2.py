import sys, os; sys.path.insert(0, os.getcwd())
# C17: from_si must be the inverse of to_si for every mass-unit argument to_si accepts.
# to_si treats mass_units=None as the EPANET default (mg); from_si crashes on it.
from wntr.epanet.util import FlowUnits, MassUnits, QualParam, to_si, from_si

params = [QualParam.Concentration, QualParam.Quality, QualParam.LinkQuality,
          QualParam.ReactionRate, QualParam.SourceMassInject, QualParam.WallReactionCoeff]
bad = []
for fu in [FlowUnits.GPM, FlowUnits.LPS, FlowUnits.SI]:
    for p in params:
        for data in (2.5, [1.0, 2.5], {'a': 1.0, 'b': 2.5}):
            si = to_si(fu, data, p, mass_units=None, reaction_order=0)       # accepted
            si_mg = to_si(fu, data, p, mass_units=MassUnits.mg, reaction_order=0)
            assert si == si_mg                                                # None == mg
            try:
                back = from_si(fu, si, p, mass_units=None, reaction_order=0)
            except Exception as e:
                bad.append((fu.name, p.name, type(data).__name__, "%s: %s" % (type(e).__name__, e)))
                continue
            ref = from_si(fu, si, p, mass_units=MassUnits.mg, reaction_order=0)
            if back != ref:
                bad.append((fu.name, p.name, type(data).__name__, back, ref))

if bad:
    print("FAIL: %d/%d round trips with mass_units=None break; e.g. to_si(%s, ..., %s, mass_units=None) "
          "works but from_si raises %s" % (len(bad), 3 * len(params) * 3, bad[0][0], bad[0][1], bad[0][3]))
    sys.exit(1)
print("PASS")
