import sys, os; sys.path.insert(0, os.getcwd())
# C17: zero-order wall reaction coefficient, US units: mass/ft2/day -> kg/m2/s.
# A rate "per ft2" must be DIVIDED by the m2-per-ft2 factor (1 ft2 = 0.09290304 m2),
# i.e. 1 mg/ft2/day = 1e-6 kg / 0.09290304 m2 / 86400 s = 1.2458e-10 kg/m2/s.
from wntr.epanet.util import FlowUnits, MassUnits, QualParam, HydParam, to_si, from_si

FT = 0.3048
bad = []
for fu in [FlowUnits.CFS, FlowUnits.GPM, FlowUnits.MGD, FlowUnits.IMGD, FlowUnits.AFD]:
    # area of a 1 ft x 1 ft square in SI, using the package's own Length conversion
    ft2_in_m2 = to_si(fu, 1.0, HydParam.Length) ** 2
    for mu in MassUnits:
        got = to_si(fu, 1.0, QualParam.WallReactionCoeff, mass_units=mu, reaction_order=0)
        expected = mu.factor / ft2_in_m2 / 86400.0      # kg / m2 / s
        # physical sanity: mass reacted on 1 ft2 of wall during 1 day must be 1 mass unit
        mass_kg = got * ft2_in_m2 * 86400.0
        if abs(got - expected) > 1e-4 * expected:
            bad.append((fu.name, mu.name, got, expected, got / expected, mass_kg / mu.factor))
        # the inverse must agree with the same physical factor
        back = from_si(fu, expected, QualParam.WallReactionCoeff, mass_units=mu, reaction_order=0)
        if abs(back - 1.0) > 1e-4:
            bad.append((fu.name, mu.name, 'from_si', back, 1.0))

# metric sibling is right (control): 1 mg/m2/day = 1e-6/86400 kg/m2/s
ctl = to_si(FlowUnits.LPS, 1.0, QualParam.WallReactionCoeff, mass_units=MassUnits.mg, reaction_order=0)
assert abs(ctl - 1e-6 / 86400.0) < 1e-20, ctl

if bad:
    b = bad[0]
    print("FAIL: %d cases; e.g. %s/%s 1 mass/ft2/day -> %.6e kg/m2/s, expected %.6e "
          "(ratio %.5f = 0.092903^2; mass on 1 ft2 in 1 day = %.5f units instead of 1)"
          % (len(bad), b[0], b[1], b[2], b[3], b[4], b[5]))
    sys.exit(1)
print("PASS")
