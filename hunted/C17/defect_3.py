import sys, os; sys.path.insert(0, os.getcwd())
# C17: US factors must follow exactly from 1 ft = 0.3048 m.
# 1 CFS for 1 s is 1 ft3; 1 AFD for 1 day is 43560 ft3. The package converts ft3 volumes with
# 0.3048**3 but CFS/AFD flows with rounded literals, so flow*time != volume.
from wntr.epanet.util import FlowUnits, HydParam, to_si, from_si

ft3 = to_si(FlowUnits.CFS, 1.0, HydParam.Volume)            # 0.3048**3 m3
assert abs(ft3 - 0.3048 ** 3) < 1e-18
cfs = to_si(FlowUnits.CFS, 1.0, HydParam.Flow)               # m3/s
afd = to_si(FlowUnits.AFD, 1.0, HydParam.Flow)               # m3/s
rel_cfs = (cfs * 1.0 - ft3) / ft3
rel_afd = (afd * 86400.0 - 43560.0 * ft3) / (43560.0 * ft3)
# controls: the gallon-based units are exact
gpm = to_si(FlowUnits.GPM, 1.0, HydParam.Flow)
assert abs(gpm * 60 - 231 * 0.0254 ** 3) < 1e-14 * gpm * 60       # 1 US gal = 231 in3 exactly
# fill a 1000 ft3 tank at 1 CFS for 1000 s, expressed back in US units
vol_back = from_si(FlowUnits.CFS, to_si(FlowUnits.CFS, 1.0, HydParam.Flow) * 1000.0, HydParam.Volume)
tol = 1e-12
if abs(rel_cfs) > tol or abs(rel_afd) > tol:
    print("FAIL: CFS factor %.13g vs 0.3048^3 = %.13g (rel %.3e); AFD*86400 = %.12g vs 43560 ft3 = %.12g "
          "(rel %.3e); 1 CFS x 1000 s -> %.12f ft3 instead of 1000"
          % (cfs, ft3, rel_cfs, afd * 86400, 43560 * ft3, rel_afd, vol_back))
    sys.exit(1)
print("PASS")
