import sys, os; sys.path.insert(0, os.getcwd())
# C05 defect 1: Control.update_condition() (public, "update the control's condition in place")
# keeps the control type chosen for the OLD condition.  A simple control that was built with a
# junction-pressure condition (postsolve only) and then given a tank-level condition is never
# put in the presolve set, so its threshold is never met by a partial time step: the tank
# overshoots the threshold by (almost) a whole hydraulic step before the link is switched.
import warnings; warnings.simplefilter('ignore')
import wntr
from wntr.network.controls import Control, ValueCondition, ControlAction
from wntr.network.base import LinkStatus

THR = 6.0

def build():
    wn = wntr.network.WaterNetworkModel()
    wn.options.time.duration = 4 * 3600
    wn.options.time.hydraulic_timestep = 3600
    wn.options.time.report_timestep = 'ALL'        # report every solved step, partial ones too
    wn.add_reservoir('R', base_head=40)
    wn.add_junction('J1', base_demand=0.005, elevation=0)
    wn.add_tank('T1', elevation=20, init_level=3, min_level=0.5, max_level=15, diameter=10)
    wn.add_pipe('P0', 'R', 'J1', length=300, diameter=0.3, roughness=100)
    wn.add_pipe('P1', 'J1', 'T1', length=300, diameter=0.3, roughness=100)
    return wn

def run(updated):
    wn = build()
    tank, junc, p0 = wn.get_node('T1'), wn.get_node('J1'), wn.get_link('P0')
    action = ControlAction(p0, 'status', LinkStatus.Closed)
    level_cond = ValueCondition(tank, 'level', '>', THR)      # IF TANK T1 LEVEL ABOVE 6 THEN P0 CLOSED
    if updated:
        ctrl = Control(ValueCondition(junc, 'pressure', '>', 1000.0), action)
        ctrl.update_condition(level_cond)                     # documented in-place update
    else:
        ctrl = Control(level_cond, action)
    wn.add_control('c', ctrl)
    res = wntr.sim.WNTRSimulator(wn).run_sim()
    assert res.error_code is None
    level = res.node['head']['T1'] - tank.elevation
    status = res.link['status']['P0']
    first = level[level > THR].index[0]                       # first reported step where the condition holds
    return first, level[first], status[first], str(ctrl._control_type)

ref = run(updated=False)
got = run(updated=True)
print('control built directly      : condition first true at t=%d s, level=%.4f, P0 status=%d (%s)' % ref)
print('control after update_cond.  : condition first true at t=%d s, level=%.4f, P0 status=%d (%s)' % got)
# one full hydraulic step moves the level by ~7.7 m here; a partial step lands within millimetres
overshoot = got[1] - THR
if overshoot > 0.05 or got[0] != ref[0]:
    print('FAIL: threshold %.1f m overshot by %.3f m (level %.3f at t=%d s; expected a partial step at '
          't=%d s with level %.4f); control type left at %s' % (THR, overshoot, got[1], got[0], ref[0], ref[1], got[3]))
    sys.exit(1)
print('PASS')
