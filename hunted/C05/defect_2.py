import sys, os; sys.path.insert(0, os.getcwd())
# C05 defect 2: a tank-level simple control whose action is a *setting* (EPANET idiom
# "PUMP PU 1.0 IF NODE T1 BELOW 4", read by the INP reader as ControlAction(pump,'base_speed',1.0))
# gets a companion "status OPEN" control from WNTRSimulator._get_pump_controls that SHARES the
# TankLevelCondition object.  evaluate() is stateful (_last_value), so the second evaluation in
# the same presolve check sees "already crossed" and returns backtrack 0: the pump is re-opened
# only at the end of the whole hydraulic step, the threshold is overshot.
import warnings; warnings.simplefilter('ignore')
import wntr
from wntr.network.controls import Control, ValueCondition, ControlAction
from wntr.network.base import LinkStatus

LOW, HIGH = 4.0, 6.0

def run(speed_idiom):
    wn = wntr.network.WaterNetworkModel()
    wn.options.time.duration = 4 * 3600
    wn.options.time.hydraulic_timestep = 3600
    wn.options.time.report_timestep = 'ALL'
    wn.add_reservoir('R', base_head=10)
    wn.add_junction('J1', base_demand=0.02, elevation=0)
    wn.add_tank('T1', elevation=20, init_level=5, min_level=0.5, max_level=15, diameter=10)
    wn.add_curve('c', 'HEAD', [(0.0, 40.0), (0.05, 30.0), (0.1, 10.0)])
    wn.add_pump('PU', 'R', 'J1', pump_type='HEAD', pump_parameter='c')
    wn.add_pipe('P1', 'J1', 'T1', length=300, diameter=0.3, roughness=100)
    tank, pump = wn.get_node('T1'), wn.get_link('PU')
    wn.add_control('off', Control(ValueCondition(tank, 'level', '>', HIGH),
                                  ControlAction(pump, 'status', LinkStatus.Closed)))
    if speed_idiom:   # PUMP PU 1.0 IF NODE T1 BELOW 4
        on = ControlAction(pump, 'base_speed', 1.0)
    else:             # PUMP PU OPEN IF NODE T1 BELOW 4
        on = ControlAction(pump, 'status', LinkStatus.Open)
    wn.add_control('on', Control(ValueCondition(tank, 'level', '<', LOW), on))
    res = wntr.sim.WNTRSimulator(wn).run_sim()
    assert res.error_code is None
    level = res.node['head']['T1'] - tank.elevation
    status = res.link['status']['PU']
    first = level[level < LOW].index[0]      # first reported step at which "level below 4" holds
    return first, level[first], int(status[first])

ref = run(False)
got = run(True)
print('PUMP PU OPEN IF ... BELOW 4 : first true at t=%d s, level=%.4f, pump status=%d' % ref)
print('PUMP PU 1.0  IF ... BELOW 4 : first true at t=%d s, level=%.4f, pump status=%d' % got)
# one hydraulic step drains ~0.92 m; a partial step lands within a fraction of a millimetre
undershoot = LOW - got[1]
if undershoot > 0.05 or got[2] != LinkStatus.Open:
    print('FAIL: threshold %.1f m overshot by %.3f m: pump re-opened at t=%d s with level %.3f '
          '(partial step expected at t=%d s, level %.4f)' % (LOW, undershoot, got[0], got[1], ref[0], ref[1]))
    sys.exit(1)
print('PASS')
