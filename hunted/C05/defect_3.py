import sys, os; sys.path.insert(0, os.getcwd())
# C05 defect 3 (same family as defect 2, different entry point): TankLevelCondition.evaluate()
# is stateful.  It decides "threshold crossed in this step -> backtrack" by comparing with
# self._last_value and then overwrites self._last_value.  When ONE condition object is used by
# two simple controls (legal: conditions are plain objects), the second control evaluated in the
# same presolve check gets backtrack 0.  If the first control's action is a no-op (its link is
# already in the commanded state) no partial step is taken and the second link is switched only
# at the end of the whole hydraulic step: the threshold is overshot.
import warnings; warnings.simplefilter('ignore')
import wntr
from wntr.network.controls import Control, ValueCondition, ControlAction
from wntr.network.base import LinkStatus

LOW, HIGH = 4.0, 6.0

def run(shared):
    wn = wntr.network.WaterNetworkModel()
    wn.options.time.duration = 4 * 3600
    wn.options.time.hydraulic_timestep = 3600
    wn.options.time.report_timestep = 'ALL'
    wn.add_reservoir('R', base_head=45)
    wn.add_junction('J1', base_demand=0.0, elevation=0)
    wn.add_junction('J2', base_demand=0.02, elevation=0)
    wn.add_tank('T1', elevation=20, init_level=5, min_level=0.5, max_level=15, diameter=10)
    wn.add_pipe('P0', 'R', 'J1', length=300, diameter=0.3, roughness=100)      # always open
    wn.add_pipe('P2', 'J1', 'J2', length=30, diameter=0.3, roughness=100)      # switched
    wn.add_pipe('P1', 'J2', 'T1', length=300, diameter=0.3, roughness=100)
    tank, p0, p2 = wn.get_node('T1'), wn.get_link('P0'), wn.get_link('P2')
    wn.add_control('off', Control(ValueCondition(tank, 'level', '>', HIGH),
                                  ControlAction(p2, 'status', LinkStatus.Closed)))
    low1 = ValueCondition(tank, 'level', '<', LOW)
    low2 = low1 if shared else ValueCondition(tank, 'level', '<', LOW)
    # IF TANK T1 LEVEL BELOW 4 THEN P0 OPEN (already open)  /  ... THEN P2 OPEN
    wn.add_control('on_p0', Control(low1, ControlAction(p0, 'status', LinkStatus.Open)))
    wn.add_control('on_p2', Control(low2, ControlAction(p2, 'status', LinkStatus.Open)))
    res = wntr.sim.WNTRSimulator(wn).run_sim()
    assert res.error_code is None
    level = res.node['head']['T1'] - tank.elevation
    first = level[level < LOW].index[0]        # first reported step where "level below 4" holds
    return first, level[first], int(res.link['status']['P2'][first])

ref = run(shared=False)
got = run(shared=True)
print('two equal condition objects : first true at t=%d s, level=%.4f, P2 status=%d' % ref)
print('one shared condition object : first true at t=%d s, level=%.4f, P2 status=%d' % got)
undershoot = LOW - got[1]
if undershoot > 0.05 or got[2] != LinkStatus.Open:
    print('FAIL: threshold %.1f m overshot by %.3f m: P2 re-opened at t=%d s with level %.3f '
          '(partial step expected at t=%d s, level %.4f)' % (LOW, undershoot, got[0], got[1], ref[0], ref[1]))
    sys.exit(1)
print('PASS')
