import sys, os; sys.path.insert(0, os.getcwd())
# C12 defect 1: simple time controls (AT TIME / AT CLOCKTIME) lose their time in an INP round trip.
# Writer emits decimal hours with '%g' (6 significant digits); reader truncates hours*3600 with int().
import tempfile, warnings, logging
warnings.filterwarnings('ignore'); logging.disable(logging.CRITICAL)
import wntr
from wntr.network.controls import Control, ControlAction, SimTimeCondition, TimeOfDayCondition

def build(times):
    wn = wntr.network.WaterNetworkModel()
    wn.add_reservoir('R', 50.0)
    wn.add_junction('J1', 0.01, None, 10.0)
    wn.add_pipe('P1', 'R', 'J1', 100.0, 0.3, 100.0, 0.0, 'OPEN')
    act = ControlAction(wn.get_link('P1'), 'status', 0)
    for i, t in enumerate(times):
        wn.add_control('s%d' % i, Control(SimTimeCondition(wn, '=', t), act))
        if t < 86400:
            wn.add_control('c%d' % i, Control(TimeOfDayCondition(wn, '=', t), act))
    return wn

def thresholds(wn):
    sim = [c.condition._threshold for n, c in wn.controls() if isinstance(c.condition, SimTimeCondition)]
    clk = [c.condition._threshold for n, c in wn.controls() if isinstance(c.condition, TimeOfDayCondition)]
    return sim, clk

times = [1200, 4800, 8400, 3661, 604860]   # 0:20, 1:20, 2:20, 1:01:01, 7 days + 1 min (all whole seconds)
bad = []
tmp = tempfile.mkdtemp()
for units in ('GPM', 'LPS'):
    for version in (2.2, 2.0):
        wn = build(times)
        fn = os.path.join(tmp, 't.inp')
        wntr.network.write_inpfile(wn, fn, units=units, version=version)
        wn2 = wntr.network.read_inpfile(fn)
        sim, clk = thresholds(wn2)
        for t, s in zip(times, sim):
            if abs(s - t) > 1e-6:
                bad.append((units, version, 'TIME', t, s))
        for t, c in zip([t for t in times if t < 86400], clk):
            if abs(c - t) > 1e-6:
                bad.append((units, version, 'CLOCKTIME', t, c))
if bad:
    print('FAIL: %d time controls changed by write/read; (units, version, kind, seconds before, seconds after):' % len(bad))
    for b in bad[:10]:
        print('   ', b)
    sys.exit(1)
print('PASS')
