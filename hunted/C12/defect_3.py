import sys, os; sys.path.insert(0, os.getcwd())
# C12 defect 3: a rule whose condition mixes AND and OR as  a OR (b AND c)  /  (a AND b) OR c
# comes back from an INP round trip as a different boolean function.
# _EpanetRule.add_control_condition flattens the condition tree to "IF a OR b AND c" without regard to
# how that clause list is grouped when it is parsed again (generate_control / EPANET: (a OR b) AND c).
import tempfile, warnings, logging, itertools
warnings.filterwarnings('ignore'); logging.disable(logging.CRITICAL)
import wntr
from wntr.network.controls import Rule, ControlAction, ValueCondition, AndCondition, OrCondition

def build():
    wn = wntr.network.WaterNetworkModel()
    wn.add_reservoir('R', 50.0)
    for j in ('A', 'B', 'C'):
        wn.add_junction(j, 0.01, None, 10.0)
    wn.add_pipe('P1', 'R', 'A', 100.0, 0.3, 100.0, 0.0, 'OPEN')
    wn.add_pipe('P2', 'A', 'B', 100.0, 0.3, 100.0, 0.0, 'OPEN')
    wn.add_pipe('P3', 'B', 'C', 100.0, 0.3, 100.0, 0.0, 'OPEN')
    a, b, c = [ValueCondition(wn.get_node(j), 'pressure', '>', 20.0) for j in ('A', 'B', 'C')]
    act = [ControlAction(wn.get_link('P3'), 'status', 0)]
    wn.add_control('r_or_and', Rule(OrCondition(a, AndCondition(b, c)), act, name='r_or_and'))   # a or (b and c)
    wn.add_control('r_and_or', Rule(OrCondition(AndCondition(a, b), c), act, name='r_and_or'))   # (a and b) or c
    wn.add_control('r_cnf', Rule(AndCondition(OrCondition(a, b), c), act, name='r_cnf'))         # (a or b) and c
    return wn

def truth(cond, env):
    """evaluate the condition tree with leaf j := env[j] (leaf = 'pressure at junction j above 20')"""
    if isinstance(cond, OrCondition):
        return truth(cond._condition_1, env) or truth(cond._condition_2, env)
    if isinstance(cond, AndCondition):
        return truth(cond._condition_1, env) and truth(cond._condition_2, env)
    return env[cond._source_obj.name]

def show(cond):
    if isinstance(cond, OrCondition):
        return '(%s or %s)' % (show(cond._condition_1), show(cond._condition_2))
    if isinstance(cond, AndCondition):
        return '(%s and %s)' % (show(cond._condition_1), show(cond._condition_2))
    return cond._source_obj.name.lower()

def table(cond):
    return tuple(truth(cond, dict(zip('ABC', bits))) for bits in itertools.product([False, True], repeat=3))

tmp = tempfile.mkdtemp(); fn = os.path.join(tmp, 't.inp')
wn = build()
wntr.network.write_inpfile(wn, fn, units='LPS', version=2.2)
wn2 = wntr.network.read_inpfile(fn)
bad = []
for name in ('r_or_and', 'r_and_or', 'r_cnf'):
    t1, t2 = table(wn.get_control(name).condition), table(wn2.get_control(name).condition)
    ndiff = sum(x != y for x, y in zip(t1, t2))
    if ndiff:
        bad.append('%s: %d of 8 truth-table rows differ; before %s  after %s' % (
            name, ndiff, show(wn.get_control(name).condition), show(wn2.get_control(name).condition)))
if bad:
    print('FAIL: rule conditions changed meaning in write/read:')
    for b in bad:
        print('    ' + b)
    sys.exit(1)
print('PASS')
