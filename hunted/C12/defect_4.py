import sys, os; sys.path.insert(0, os.getcwd())
# C12 defect 4: with options.quality.inpfile_units = 'ug/L' (a documented value) every concentration in the
# model is changed by a factor 1000 in a write/read round trip. InpFile.write() converts with
# self.mass_units, which defaults to MassUnits.mg and is never derived from wn.options.quality.inpfile_units,
# while the [OPTIONS] line 'QUALITY <chem> ug/L' makes the reader convert back with MassUnits.ug.
import tempfile, warnings, logging
warnings.filterwarnings('ignore'); logging.disable(logging.CRITICAL)
import wntr

def build(qunits):
    wn = wntr.network.WaterNetworkModel()
    wn.add_pattern('1', [1.0, 1.2])
    wn.add_reservoir('R', 50.0)
    wn.add_junction('J1', 0.01, None, 10.0)
    wn.add_junction('J2', 0.01, None, 10.0)
    wn.add_pipe('P1', 'R', 'J1', 100.0, 0.3, 100.0, 0.0, 'OPEN')
    wn.add_pipe('P2', 'J1', 'J2', 100.0, 0.3, 100.0, 0.0, 'OPEN')
    wn.options.quality.parameter = 'CHEMICAL'
    wn.options.quality.chemical_name = 'Cl2'
    wn.options.quality.inpfile_units = qunits
    wn.get_node('R').initial_quality = 0.002            # kg/m3  (= 2 mg/L = 2000 ug/L)
    wn.add_source('s1', 'J1', 'CONCEN', 0.0005, '1')    # kg/m3
    wn.add_source('s2', 'J2', 'MASS', 1.0e-6, None)     # kg/s
    return wn

def values(wn):
    src = sorted((s.node_name, s.strength_timeseries.base_value) for _, s in wn.sources())
    return [wn.get_node('R').initial_quality] + [v for _, v in src]

tmp = tempfile.mkdtemp(); fn = os.path.join(tmp, 't.inp')
bad = []
for qunits in ('mg/L', 'ug/L'):
    for flow_units in ('GPM', 'LPS'):
        wn = build(qunits)
        wntr.network.write_inpfile(wn, fn, units=flow_units, version=2.2)
        wn2 = wntr.network.read_inpfile(fn)
        assert wn2.options.quality.inpfile_units == qunits
        for label, x, y in zip(('initial_quality R', 'CONCEN source J1', 'MASS source J2'), values(wn), values(wn2)):
            if abs(x - y) > 1e-6 * abs(x):
                bad.append((qunits, flow_units, label, x, y, 'ratio %.4g' % (y / x)))
if bad:
    print('FAIL: quality values changed by write/read (quality units, flow units, item, before SI, after SI, ratio):')
    for b in bad:
        print('    ', b)
    sys.exit(1)
print('PASS')
