import sys, os; sys.path.insert(0, os.getcwd())
# C12 defect 2: a rule condition on SYSTEM CLOCKTIME in the 12 o'clock hours (00:00-00:59 and 12:00-12:59)
# comes back 12 hours later. The writer emits the correct EPANET text ('12:30:00 AM' for 1800 s), but
# ControlCondition._parse_value treats '12:xx AM' as 12:xx and adds 12 h to '12:xx PM'.
import tempfile, warnings, logging
warnings.filterwarnings('ignore'); logging.disable(logging.CRITICAL)
import wntr
from wntr.network.controls import Rule, ControlAction, TimeOfDayCondition

clock_secs = [0, 1800, 3599, 3600, 39600, 43200, 45000, 46799, 46800, 82800]  # seconds after midnight

def build():
    wn = wntr.network.WaterNetworkModel()
    wn.add_reservoir('R', 50.0)
    wn.add_junction('J1', 0.01, None, 10.0)
    wn.add_pipe('P1', 'R', 'J1', 100.0, 0.3, 100.0, 0.0, 'OPEN')
    act = ControlAction(wn.get_link('P1'), 'status', 0)
    for i, t in enumerate(clock_secs):
        wn.add_control('r%02d' % i, Rule(TimeOfDayCondition(wn, '>=', t), [act], priority=3, name='r%02d' % i))
    return wn

tmp = tempfile.mkdtemp()
fn = os.path.join(tmp, 't.inp')
wn = build()
wntr.network.write_inpfile(wn, fn, units='LPS', version=2.2)
wn2 = wntr.network.read_inpfile(fn)
bad = []
for i, t in enumerate(clock_secs):
    c2 = wn2.get_control('r%02d' % i).condition
    assert isinstance(c2, TimeOfDayCondition)
    if abs(c2._threshold - t) > 1e-6:
        bad.append((t, c2._threshold))
# a second cycle must not change anything further either
wntr.network.write_inpfile(wn2, fn, units='LPS', version=2.2)
wn3 = wntr.network.read_inpfile(fn)
drift = [(wn2.get_control('r%02d' % i).condition._threshold, wn3.get_control('r%02d' % i).condition._threshold)
         for i in range(len(clock_secs))
         if abs(wn2.get_control('r%02d' % i).condition._threshold - wn3.get_control('r%02d' % i).condition._threshold) > 1e-6]
if bad or drift:
    print('FAIL: clocktime rule thresholds changed (sec before, sec after): %s ; second-cycle drift: %s' % (bad, drift))
    sys.exit(1)
print('PASS')
