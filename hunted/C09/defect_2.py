import sys, os; sys.path.insert(0, os.getcwd())
# C09 clause: "the simulator still solves the rest of the network and reports zero ... for that junction".
# J2 hangs behind a check valve that only lets water flow AWAY from it (J2 -> J1), so J2 is cut off from the
# reservoir as soon as the check valve closes; J1 is fed directly by the reservoir.  The network is run at two
# vertical datums (all elevations/heads shifted by a constant); the outcome must not depend on the datum.
import warnings
import wntr


def run(shift):
    wn = wntr.network.WaterNetworkModel()
    wn.options.time.duration = 2 * 3600
    wn.add_reservoir('R', base_head=50 + shift)
    wn.add_junction('J1', base_demand=0.01, elevation=10 + shift)
    wn.add_junction('J2', base_demand=0.01, elevation=10 + shift)
    wn.add_pipe('P', 'R', 'J1', length=100, diameter=0.3, roughness=100)
    wn.add_pipe('CV', 'J2', 'J1', length=100, diameter=0.3, roughness=100, check_valve=True)
    with warnings.catch_warnings(record=True) as w:
        warnings.simplefilter('always')
        res = wntr.sim.WNTRSimulator(wn).run_sim()
    msgs = [str(x.message) for x in w if 'trials' in str(x.message) or 'converge' in str(x.message)]
    return res, msgs


bad = []
for shift in (0.0, -200.0):
    res, msgs = run(shift)
    n_steps = len(res.node['demand'].index)
    if res.error_code is not None or n_steps != 3:
        bad.append('datum shift %g m: error_code=%r, %d of 3 steps reported, warnings=%r' % (shift, res.error_code, n_steps, msgs))
        continue
    d = res.node['demand']; p = res.node['pressure']; q = res.link['flowrate']; s = res.link['status']
    for t in d.index:
        ok = (s.loc[t, 'CV'] == 0 and d.loc[t, 'J2'] == 0 and p.loc[t, 'J2'] == 0 and q.loc[t, 'CV'] == 0
              and abs(d.loc[t, 'J1'] - 0.01) < 1e-9 and p.loc[t, 'J1'] > 0)
        if not ok:
            bad.append('datum shift %g m, t=%d: CV status=%d dJ2=%g pJ2=%g qCV=%g dJ1=%g pJ1=%g'
                       % (shift, t, s.loc[t, 'CV'], d.loc[t, 'J2'], p.loc[t, 'J2'], q.loc[t, 'CV'], d.loc[t, 'J1'], p.loc[t, 'J1']))

if bad:
    print('FAIL: rest of the network not solved when the cut-off junction lies above head 0: ' + '; '.join(bad[:3]))
    sys.exit(1)
print('PASS')
