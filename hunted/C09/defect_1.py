import sys, os; sys.path.insert(0, os.getcwd())
# C09 clause: "reconnecting an isolated part restores normal results".
# A pump R->J1 is closed by a time control at 1 h (J1, J2 become isolated) and opened again at 3 h.
# The same network is run at two vertical datums (all elevations/heads shifted by a constant);
# hydraulics are invariant to such a shift, so after 3 h the junctions must be served in both runs.
import warnings
warnings.simplefilter('ignore')
import wntr
from wntr.network.controls import ControlAction, SimTimeCondition, Control
from wntr.network import LinkStatus


def run(shift):
    wn = wntr.network.WaterNetworkModel()
    wn.options.time.duration = 5 * 3600
    wn.add_reservoir('R', base_head=30 + shift)
    wn.add_junction('J1', base_demand=0.01, elevation=10 + shift)
    wn.add_junction('J2', base_demand=0.01, elevation=10 + shift)
    wn.add_curve('C', 'HEAD', [(0.05, 40)])
    wn.add_pump('PU', 'R', 'J1', pump_type='HEAD', pump_parameter='C')
    wn.add_pipe('P', 'J1', 'J2', length=100, diameter=0.3, roughness=100)
    pu = wn.get_link('PU')
    wn.add_control('close', Control(SimTimeCondition(wn, '=', 3600), ControlAction(pu, 'status', LinkStatus.Closed)))
    wn.add_control('open', Control(SimTimeCondition(wn, '=', 3 * 3600), ControlAction(pu, 'status', LinkStatus.Open)))
    res = wntr.sim.WNTRSimulator(wn).run_sim()
    assert res.error_code is None
    return res


bad = []
for shift in (0.0, -200.0):
    res = run(shift)
    st = res.link['status']['PU']
    dem = res.node['demand'][['J1', 'J2']]
    prs = res.node['pressure'][['J1', 'J2']]
    # while cut off (1 h, 2 h): zeroed
    for t in (3600, 7200):
        assert st[t] == 0 and (dem.loc[t] == 0).all() and (prs.loc[t] == 0).all(), (shift, t)
    # reconnected by the control at 3 h: normal results must come back
    for t in (3 * 3600, 4 * 3600, 5 * 3600):
        if st[t] != 1 or abs(dem.loc[t, 'J1'] - 0.01) > 1e-9 or abs(dem.loc[t, 'J2'] - 0.01) > 1e-9 or prs.loc[t, 'J1'] <= 0:
            bad.append('datum shift %g m, t=%d s: pump status=%d, demand J1=%g J2=%g, pressure J1=%g'
                       % (shift, t, st[t], dem.loc[t, 'J1'], dem.loc[t, 'J2'], prs.loc[t, 'J1']))

if bad:
    print('FAIL: pump re-opened by control at t=10800 s but the part stays isolated/zeroed: ' + '; '.join(bad[:3]))
    sys.exit(1)
print('PASS')
