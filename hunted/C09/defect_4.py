import sys, os; sys.path.insert(0, os.getcwd())
# C09: a junction cut off from every tank and reservoir must not prevent the rest of the network from being
# solved; it is reported with zero demand / pressure.  Here the cut-off junction has no link at all (e.g. its
# only pipe was removed with wn.remove_link for a break scenario).  The outcome must not depend on the order in
# which the nodes were added.
import warnings
warnings.simplefilter('ignore')
import wntr


def run(orphan_last):
    wn = wntr.network.WaterNetworkModel()
    wn.options.time.duration = 3600
    wn.add_reservoir('R', base_head=50)
    if not orphan_last:
        wn.add_junction('ORPHAN', base_demand=0.01, elevation=10)
    wn.add_junction('J1', base_demand=0.01, elevation=10)
    if orphan_last:
        wn.add_junction('ORPHAN', base_demand=0.01, elevation=10)
    wn.add_pipe('P', 'R', 'J1', length=100, diameter=0.3, roughness=100)
    wn.add_pipe('Q', 'J1', 'ORPHAN', length=100, diameter=0.3, roughness=100)
    wn.remove_link('Q')   # ORPHAN is now cut off from every source
    res = wntr.sim.WNTRSimulator(wn).run_sim()
    d = res.node['demand']; p = res.node['pressure']
    assert res.error_code is None
    assert (d['ORPHAN'] == 0).all() and (p['ORPHAN'] == 0).all(), 'cut-off junction not zeroed'
    assert (abs(d['J1'] - 0.01) < 1e-9).all() and (p['J1'] > 0).all(), 'connected junction not served'


bad = []
for orphan_last in (False, True):
    try:
        run(orphan_last)
    except Exception as e:
        bad.append('cut-off junction added %s: %s: %s' % ('last' if orphan_last else 'first', type(e).__name__, e))

if bad:
    print('FAIL: simulation does not solve the rest of the network: ' + '; '.join(bad))
    sys.exit(1)
print('PASS')
