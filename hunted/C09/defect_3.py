import sys, os; sys.path.insert(0, os.getcwd())
# C09, "every pattern of initially closed links": a junction whose only connection to the sources is an
# initially CLOSED pump or valve must be zeroed from t=0 on, exactly as it is behind an initially closed pipe.
import warnings
warnings.simplefilter('ignore')
import wntr


def build(kind):
    wn = wntr.network.WaterNetworkModel()
    wn.options.time.duration = 2 * 3600
    wn.add_reservoir('R', base_head=30)
    wn.add_junction('J0', base_demand=0.0, elevation=10)
    wn.add_junction('J1', base_demand=0.01, elevation=10)
    wn.add_pipe('P0', 'R', 'J0', length=10, diameter=0.3, roughness=100)
    if kind == 'pipe':
        wn.add_pipe('L', 'J0', 'J1', length=10, diameter=0.3, roughness=100, initial_status='CLOSED')
    elif kind == 'head pump':
        wn.add_curve('C', 'HEAD', [(0.05, 40)])
        wn.add_pump('L', 'J0', 'J1', pump_type='HEAD', pump_parameter='C', initial_status='CLOSED')
    elif kind == 'power pump':
        wn.add_pump('L', 'J0', 'J1', pump_type='POWER', pump_parameter=5000.0, initial_status='CLOSED')
    else:
        wn.add_valve('L', 'J0', 'J1', 0.3, kind, 0, 10, initial_status='CLOSED')
    return wn


bad = []
for kind in ['pipe', 'head pump', 'power pump', 'TCV', 'PRV']:
    for via_dict in (False, True):
        wn = build(kind)
        if via_dict:  # documented save / load round trip
            wn = wntr.network.from_dict(wntr.network.to_dict(wn))
        assert wn.get_link('L').initial_status == wntr.network.LinkStatus.Closed
        res = wntr.sim.WNTRSimulator(wn).run_sim()
        assert res.error_code is None
        for t in res.node['demand'].index:
            st = res.link['status'].loc[t, 'L']; q = res.link['flowrate'].loc[t, 'L']
            d = res.node['demand'].loc[t, 'J1']; p = res.node['pressure'].loc[t, 'J1']
            if st != 0 or q != 0 or d != 0 or p != 0:
                bad.append('%s%s t=%d: status=%d flow=%g demand(J1)=%g pressure(J1)=%g'
                           % (kind, ' (from_dict)' if via_dict else '', t, st, q, d, p))
                break

if bad:
    print('FAIL: junction behind an initially CLOSED link is served instead of zeroed: ' + '; '.join(bad))
    sys.exit(1)
print('PASS')
