import sys, os; sys.path.insert(0, os.getcwd())
# C20: water_service_availability equals its documented formula.  The docstring
# states: "WSA = demand / expected_demand ... If expected demand is 0 for a
# particular junction, water service availability will be set to NaN for that
# junction."  That only happens for 0/0; any non-zero delivered value over a zero
# expected demand yields +/-inf, which then poisons the documented averages
# (e.g. wsa.mean()).
import warnings; warnings.filterwarnings('ignore')
import numpy as np, pandas as pd
import wntr

wn = wntr.network.WaterNetworkModel()
wn.add_pattern('onoff', [1.0, 0.0, 1.0])
wn.add_reservoir('R', base_head=50.0)
wn.add_junction('J1', base_demand=0.01, demand_pattern='onoff')
wn.add_junction('J2', base_demand=0.0)                      # expected demand 0 at all times
wn.add_pipe('P1', 'R', 'J1'); wn.add_pipe('P2', 'J1', 'J2')
wn.options.time.duration = 2 * 3600

exp = wntr.metrics.expected_demand(wn)                       # J1: .01, 0, .01 ; J2: 0, 0, 0
# a results table (e.g. from a simulator that lumps emitter/leak outflow into 'demand',
# or one carrying solver round-off) with non-zero entries where expected demand is 0
dem = pd.DataFrame({'J1': [0.01, 1e-9, 0.008], 'J2': [0.002, 0.0, -1e-12]}, index=exp.index)

wsa = wntr.metrics.water_service_availability(exp, dem)
zero = (exp == 0)
vals = wsa.values.astype(float)
not_nan = zero.values & ~np.isnan(vals)
# also the documented Series form (per junction, summed over time)
wsa_j = wntr.metrics.water_service_availability(exp.sum(axis=0), dem.sum(axis=0))

if not_nan.any() or not np.isnan(wsa_j['J2']):
    print('FAIL: expected demand is 0 at %d junction-time pairs, WSA should be NaN there but is %s; '
          'per-junction WSA for J2 (expected demand 0) = %s, node-average per time = %s'
          % (zero.values.sum(), vals[zero.values].tolist(), wsa_j['J2'], wsa.mean(axis=1).tolist()))
    sys.exit(1)
print('PASS')
