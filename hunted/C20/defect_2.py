import sys, os; sys.path.insert(0, os.getcwd())
# C20: average_expected_demand is the mean of base x pattern x multiplier over a
# whole common period of all patterns ("any pattern lengths").  A pattern with no
# multipliers is legal (Pattern.at() documents/implements it as the constant 1.0),
# but its length 0 drives the lcm of the pattern lengths to 0, the averaging window
# becomes empty and EVERY junction gets NaN (population() too) - even if the empty
# pattern is not used by any demand.
import warnings; warnings.filterwarnings('ignore')
import numpy as np
import wntr

def build(with_empty):
    wn = wntr.network.WaterNetworkModel()
    wn.add_pattern('p5', [1.0, 2.0, 0.5, 1.5, 3.0])      # mean 1.6
    if with_empty:
        wn.add_pattern('empty', [])                     # evaluates to 1.0 at all times
    wn.add_reservoir('R', base_head=50.0)
    wn.add_junction('J1', base_demand=0.01, demand_pattern='p5', elevation=0.0)
    wn.add_junction('J2', base_demand=0.02, elevation=0.0)
    wn.add_junction('J3', base_demand=0.03, demand_pattern='empty' if with_empty else None)
    wn.add_pipe('P1', 'R', 'J1'); wn.add_pipe('P2', 'J1', 'J2'); wn.add_pipe('P3', 'J2', 'J3')
    wn.options.hydraulic.demand_multiplier = 1.5
    return wn

expected = {'J1': 0.01 * 1.6 * 1.5, 'J2': 0.02 * 1.5, 'J3': 0.03 * 1.5}
ref = wntr.metrics.average_expected_demand(build(False))
assert all(abs(ref[j] - expected[j]) < 1e-12 for j in expected), ref   # sanity: formula holds

wn = build(True)
# the empty pattern really is the constant 1.0 for expected_demand / the simulator
ed = wntr.metrics.expected_demand(wn, 0, 4 * 3600, 3600)
assert np.allclose(ed['J3'].values, 0.03 * 1.5), ed['J3']

aed = wntr.metrics.average_expected_demand(wn)
pop = wntr.metrics.population(wn)
bad = [j for j in expected if not abs(aed[j] - expected[j]) < 1e-12]
if bad or pop.isna().any():
    print('FAIL: with an empty pattern in the model average_expected_demand = %s '
          '(expected %s); population = %s' % (aed.to_dict(), expected, pop.to_dict()))
    sys.exit(1)
print('PASS')
