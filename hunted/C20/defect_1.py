import sys, os; sys.path.insert(0, os.getcwd())
# C20: expected_demand(wn) must give base x pattern x multiplier for the times
# start_time..end_time (default 0..duration) and match, row for row, the demand
# WNTRSimulator delivers in demand-driven mode.  When the duration is not a
# multiple of the (report) timestep, expected_demand emits a row BEYOND end_time.
import warnings; warnings.filterwarnings('ignore')
import numpy as np
import wntr

wn = wntr.network.WaterNetworkModel()
wn.add_pattern('p5', [1.0, 2.0, 0.5, 1.5, 3.0])          # 5 h pattern
wn.add_reservoir('R', base_head=50.0)
wn.add_junction('J1', base_demand=0.01, demand_pattern='p5', elevation=0.0)
wn.add_junction('J2', base_demand=0.02, elevation=0.0)
wn.add_pipe('P1', 'R', 'J1', length=100, diameter=0.3, roughness=100)
wn.add_pipe('P2', 'J1', 'J2', length=100, diameter=0.3, roughness=100)
wn.options.time.duration = 10 * 3600          # 10 h
wn.options.time.hydraulic_timestep = 3600
wn.options.time.pattern_timestep = 3600
wn.options.time.report_timestep = 3 * 3600    # 3 h: does not divide 10 h

ed = wntr.metrics.expected_demand(wn)
res = wntr.sim.WNTRSimulator(wn).run_sim()
dem = res.node['demand'].loc[:, wn.junction_name_list]

problems = []
t_exp = [int(t) for t in ed.index]
t_sim = [int(t) for t in dem.index]
if max(t_exp) > wn.options.time.duration:
    problems.append('expected_demand has a row at t=%d s > end_time=duration=%d s'
                    % (max(t_exp), wn.options.time.duration))
if t_exp != t_sim:
    problems.append('times differ: expected_demand %s vs WNTRSimulator %s' % (t_exp, t_sim))
# same check through the explicit-argument path
ed2 = wntr.metrics.expected_demand(wn, start_time=0, end_time=7 * 3600, timestep=2 * 3600)
if max(ed2.index) > 7 * 3600:
    problems.append('expected_demand(0, 25200, 7200) returns times %s (last one > end_time)'
                    % [int(t) for t in ed2.index])
# the doc example wsa = water_service_availability(expected_demand(wn), demand)
wsa = wntr.metrics.water_service_availability(ed, dem)
if wsa.shape[0] != dem.shape[0]:
    problems.append('WSA gets %d rows for %d simulated times (extra all-NaN row)'
                    % (wsa.shape[0], dem.shape[0]))

if problems:
    print('FAIL: ' + '; '.join(problems))
    sys.exit(1)
print('PASS')
