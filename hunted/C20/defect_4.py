import sys, os; sys.path.insert(0, os.getcwd())
# C20: annual_network_cost equals its documented formula.  The docstring gives the
# maximum-pump-power formula with "eff is the global efficiency (0.75 default)".
# A model whose energy options are left at their defaults (any model built through
# the API, or read from an INP file without a "Global Efficiency" line, for which
# EPANET itself assumes 75 %) has wn.options.energy.global_efficiency = None, and
# annual_network_cost (and pump_power/pump_energy) raise TypeError instead of using
# the documented default.
import warnings; warnings.filterwarnings('ignore')
import numpy as np, pandas as pd
import wntr

def build():
    wn = wntr.network.WaterNetworkModel()
    wn.add_reservoir('R', base_head=10.0)
    wn.add_junction('J1', base_demand=0.0, elevation=0.0)
    wn.add_junction('J2', base_demand=0.05, elevation=0.0)
    wn.add_curve('C1', 'HEAD', [(0.05, 40.0)])
    wn.add_pump('PU1', 'R', 'J1', pump_type='HEAD', pump_parameter='C1')
    wn.add_pipe('P1', 'J1', 'J2', length=100, diameter=0.3048, roughness=100)
    return wn

wn = build()
assert wn.options.energy.global_efficiency is None          # the default
# what the documented formula gives with the documented default efficiency
refs = []
for eff in (75.0, 0.75):      # percent (as documented in options) or fraction (as in the formula)
    w = build(); w.options.energy.global_efficiency = eff
    refs.append(wntr.metrics.annual_network_cost(w))
msgs = []
try:
    cost = wntr.metrics.annual_network_cost(wn)
    if not any(abs(cost - r) < 1e-9 for r in refs):
        msgs.append('annual_network_cost=%r, documented default efficiency gives one of %r' % (cost, refs))
except TypeError as e:
    msgs.append('annual_network_cost raises TypeError(%s) with default energy options; '
                'documented 0.75-default efficiency gives %r' % (e, refs))
if msgs:   # side note only (not part of the pass criterion): pump_power/pump_energy crash the same way
    flow = pd.DataFrame({'PU1': [0.05, 0.04]}, index=[0, 3600])
    head = pd.DataFrame({'R': [10.0, 10.0], 'J1': [50.0, 55.0]}, index=[0, 3600])
    try:
        wntr.metrics.pump_power(flow, head, wn)
    except TypeError as e:
        msgs.append('(pump_power also raises TypeError: %s)' % e)
if msgs:
    print('FAIL: ' + '; '.join(msgs)); sys.exit(1)
print('PASS')
