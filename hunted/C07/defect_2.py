import sys, os; sys.path.insert(0, os.getcwd())
# C07 "per-junction ... pressure exponent override the global options for that junction":
# a control that changes a junction's pressure_exponent during a WNTRSimulator run is honoured only by
# the two smoothing polynomials; the power-law branch of the PDD constraint keeps the exponent that was
# baked in when the model was built. (The sibling attributes minimum_pressure / required_pressure ARE honoured.)
import warnings; warnings.filterwarnings('ignore')
import wntr
from wntr.network.controls import ControlAction, Control, SimTimeCondition

D, ELEV, P = 0.01, 10.0, 5.0
PMIN, PREQ, E_OLD, E_NEW = 0.0, 20.0, 0.5, 1.0

def run(attr, value):
    wn = wntr.network.WaterNetworkModel()
    wn.add_reservoir('R', base_head=ELEV + P)
    wn.add_junction('J', base_demand=D, elevation=ELEV)
    wn.add_pipe('P', 'R', 'J', length=1.0, diameter=2.0, roughness=150)   # negligible head loss: p(J) = 5 m
    wn.options.hydraulic.demand_model = 'PDD'
    wn.options.hydraulic.minimum_pressure = PMIN
    wn.options.hydraulic.required_pressure = PREQ
    wn.options.hydraulic.pressure_exponent = E_OLD
    wn.options.time.duration = 3 * 3600
    wn.options.time.hydraulic_timestep = 3600
    wn.options.time.report_timestep = 3600
    J = wn.get_node('J')
    wn.add_control('c', Control(SimTimeCondition(wn, '=', 2 * 3600), ControlAction(J, attr, value)))
    res = wntr.sim.WNTRSimulator(wn).run_sim()
    p = res.node['pressure']['J']; d = res.node['demand']['J'] / D
    assert getattr(J, attr) == value            # the control did fire
    return float(p.loc[3600]), float(d.loc[3600]), float(p.loc[3 * 3600]), float(d.loc[3 * 3600])

def law(p, pmin, preq, e):
    return min(max((p - pmin) / (preq - pmin), 0.0), 1.0) ** e

bad = []
# sibling attribute, for contrast: required_pressure 20 -> 10 at t = 2 h is honoured
p0, d0, p1, d1 = run('required_pressure', 10.0)
exp1 = law(p1, PMIN, 10.0, E_OLD)
if abs(d1 - exp1) > 1e-6:
    bad.append('required_pressure->10: delivered %.4f expected %.4f' % (d1, exp1))
# pressure_exponent 0.5 -> 1.0 at t = 2 h
p0, d0, p1, d1 = run('pressure_exponent', E_NEW)
exp0, exp1 = law(p0, PMIN, PREQ, E_OLD), law(p1, PMIN, PREQ, E_NEW)
if abs(d0 - exp0) > 1e-6:
    bad.append('before control: delivered %.4f expected %.4f' % (d0, exp0))
if abs(d1 - exp1) > 1e-6:
    bad.append('after J.pressure_exponent %.1f->%.1f at p=%.3f m (Pmin=%g, Preq=%g): delivered/requested = %.4f, '
               'expected ((p-Pmin)/(Preq-Pmin))^%.1f = %.4f (value for the old exponent: %.4f)'
               % (E_OLD, E_NEW, p1, PMIN, PREQ, d1, E_NEW, exp1, law(p1, PMIN, PREQ, E_OLD)))
if bad:
    print('FAIL: ' + '; '.join(bad)); sys.exit(1)
print('PASS: delivered demand follows the new per-junction exponent (%.4f)' % d1)
