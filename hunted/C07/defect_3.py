import sys, os; sys.path.insert(0, os.getcwd())
# C07 "non-decreasing ... the full requested demand at or above the required pressure":
# the guard in pnom_param compares the required pressure itself (not Preq - Pmin) with the 0.05 m smoothing
# width, so a junction with Pmin = 10 m, Preq = 10.02 m passes it; the lower smoothing cubic is then fitted
# out to Pmin + 0.05 m > Preq where the power law is > 1, and the junction is delivered up to ~2.5x its demand.
import warnings; warnings.filterwarnings('ignore')
import numpy as np
import wntr

D, ELEV = 0.01, 10.0

def scan(pmin, preq, expo, targets):
    out = []
    for t in targets:
        wn = wntr.network.WaterNetworkModel()
        wn.add_reservoir('R', base_head=ELEV + t)
        wn.add_junction('J', base_demand=D, elevation=ELEV)
        wn.add_pipe('P', 'R', 'J', length=1.0, diameter=2.0, roughness=150)   # negligible head loss
        wn.options.hydraulic.demand_model = 'PDD'
        wn.options.time.duration = 0
        J = wn.get_node('J')
        J.minimum_pressure, J.required_pressure, J.pressure_exponent = pmin, preq, expo
        res = wntr.sim.WNTRSimulator(wn).run_sim()
        if len(res.node['pressure']['J']) == 0:
            continue                      # this reservoir head did not converge (it sits on the jump); skip it
        out.append((float(res.node['pressure']['J'].iloc[0]), float(res.node['demand']['J'].iloc[0]) / D))
    return np.array(out)

bad = []
PMIN, PREQ = 10.0, 10.02
targets = np.arange(PMIN - 0.01, PREQ + 0.06, 0.001)
try:
    r = scan(PMIN, PREQ, 1.0, targets)
    p, f = r[:, 0], r[:, 1]
    i = int(np.argmax(f)); k = int(np.argmin(np.diff(f)))
    if f.max() > 1.0 + 1e-6 or np.diff(f).min() < -1e-9:
        bad.append('Pmin=%g Preq=%g exp=1: delivered/requested peaks at %.4f at p=%.4f m (> Preq; expected 1.0), '
                   'then drops by %.4f between p=%.4f and p=%.4f m (expected non-decreasing)'
                   % (PMIN, PREQ, f[i], p[i], -np.diff(f)[k], p[k], p[k + 1]))
except Exception as e:
    bad.append('Pmin=%g Preq=%g exp=1: legal input (Pmin < Preq) not simulated: %r' % (PMIN, PREQ, e))
try:   # same thresholds with the default exponent: the upper cubic is fitted from Preq-0.05 < Pmin -> complex numbers
    r = scan(PMIN, PREQ, 0.5, targets[::10])
    if r[:, 1].max() > 1.0 + 1e-6 or np.diff(r[:, 1]).min() < -1e-9:
        bad.append('exp=0.5: delivered/requested reaches %.4f' % r[:, 1].max())
except Exception as e:
    bad.append('Pmin=%g Preq=%g exp=0.5: building the model dies with %s: %s' % (PMIN, PREQ, type(e).__name__, str(e)[:80]))
if bad:
    print('FAIL: ' + ' | '.join(bad)); sys.exit(1)
print('PASS: delivered demand stays within [0, D] and is non-decreasing for Preq - Pmin = 0.02 m')
