import sys, os; sys.path.insert(0, os.getcwd())
# C07 "continuous, non-decreasing": with the DEFAULT PDD options (Pmin=0, Preq=0.07 m, exponent 0.5)
# the delivered-demand curve of the WNTRSimulator has a jump at p = Pmin + 0.05 m, because the two
# fixed-width (0.05 m) smoothing bands overlap whenever Preq - Pmin < 0.1 m.
import warnings; warnings.filterwarnings('ignore')
import numpy as np
import wntr

D, ELEV = 0.01, 10.0

def delivered_fraction(p_target):
    """One junction fed from a reservoir through a huge, short pipe: junction pressure ~= p_target."""
    wn = wntr.network.WaterNetworkModel()
    wn.add_reservoir('R', base_head=ELEV + p_target)
    wn.add_junction('J', base_demand=D, elevation=ELEV)
    wn.add_pipe('P', 'R', 'J', length=1.0, diameter=2.0, roughness=150)
    wn.options.hydraulic.demand_model = 'PDD'      # all other PDD options left at their defaults
    wn.options.time.duration = 0
    res = wntr.sim.WNTRSimulator(wn).run_sim()
    return float(res.node['pressure']['J'].iloc[0]), float(res.node['demand']['J'].iloc[0]) / D

opts = wntr.network.WaterNetworkModel().options.hydraulic
pmin, preq, expo = opts.minimum_pressure, opts.required_pressure, opts.pressure_exponent
assert pmin < preq and 0 < expo <= 1

step = 2.5e-4
targets = np.arange(pmin - 0.01, preq + 0.01 + step / 2, step)
pts = [delivered_fraction(t) for t in targets]
p = np.array([a for a, b in pts]); f = np.array([b for a, b in pts])

# A continuous curve that rises from 0 to 1 over (preq - pmin) = 0.07 m and is smoothed near both ends
# cannot change by more than a few 1e-3 of D over a 0.25 mm pressure step; allow several times that (0.03).
dfrac = np.diff(f)
i = int(np.argmax(np.abs(dfrac)))
ok_cont = np.abs(dfrac).max() < 0.03
ok_mono = dfrac.min() > -1e-9
if ok_cont and ok_mono:
    print('PASS: max change of delivered fraction over a %.2e m pressure step = %.4f' % (step, np.abs(dfrac).max()))
    sys.exit(0)
print('FAIL: default options Pmin=%g Preq=%g exp=%g: delivered/requested jumps from %.4f at p=%.5f m to %.4f at p=%.5f m '
      '(jump %.4f of the requested demand over %.2e m; largest change elsewhere %.4f; most negative step %.2e)'
      % (pmin, preq, expo, f[i], p[i], f[i + 1], p[i + 1], dfrac[i], p[i + 1] - p[i],
         np.abs(np.delete(dfrac, i)).max(), dfrac.min()))
sys.exit(1)
