import sys, os; sys.path.insert(0, os.getcwd())
# C11: reset_initial_values() tries to restore the power of a PowerPump with
# `link.power = link._base_power`, but PowerPump.power IS _base_power (getter and setter), so the
# line is a no-op.  A control acting on 'power' (an attribute the WNTRSimulator explicitly tracks
# via pump_power_param) therefore survives the reset: the rerun starts with the reduced power.
import copy, warnings
warnings.filterwarnings('ignore')
import numpy as np
import wntr
from wntr.network.controls import Control, ControlAction, SimTimeCondition

wn = wntr.network.WaterNetworkModel()
wn.add_reservoir('R', base_head=10.0)
wn.add_junction('A', base_demand=0.0, elevation=0.0)
wn.add_junction('B', base_demand=0.01, elevation=5.0)
wn.add_pump('PW', 'R', 'A', pump_type='POWER', pump_parameter=2000.0)
wn.add_pipe('p1', 'A', 'B', length=500, diameter=0.2, roughness=100)
wn.options.time.duration = 4 * 3600
pump = wn.get_link('PW')
wn.add_control('cut_power', Control(SimTimeCondition(wn, '=', 2 * 3600), ControlAction(pump, 'power', 500.0)))

power0 = pump.power
r1 = wntr.sim.WNTRSimulator(wn).run_sim()
wn.reset_initial_values()
power_after_reset = pump.power
r2 = wntr.sim.WNTRSimulator(wn).run_sim()
h1 = r1.node['head']['B'].values
h2 = r2.node['head']['B'].values
ok = (power_after_reset == power0) and np.allclose(h1, h2, atol=1e-6)
if not ok:
    print('FAIL: pump power defined %g, after run+reset_initial_values %g; head at B first run %s, rerun after reset %s'
          % (power0, power_after_reset, h1.round(3), h2.round(3)))
    sys.exit(1)
print('PASS')
