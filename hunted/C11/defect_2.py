import sys, os; sys.path.insert(0, os.getcwd())
# C11: Link.initial_status / Link.initial_setting setters change the definition only; the current
# status/setting the WNTRSimulator starts from is left stale (Tank.init_level / Tank.elevation do
# re-sync the current head).  So the documented `pipe.initial_status = 'Closed'` is ignored by the
# first run, honoured after reset_initial_values(), and honoured by a reloaded (from_dict) model.
import copy, warnings
warnings.filterwarnings('ignore')
import numpy as np
import wntr

wn = wntr.network.WaterNetworkModel('examples/networks/Net1.inp')
wn.options.time.duration = 3 * 3600
wn.get_link('110').initial_status = 'Closed'          # as in documentation/waternetworkmodel.rst
wn.add_valve('V', '22', '23', diameter=0.3, valve_type='TCV', initial_setting=1.0)
wn.get_link('V').initial_setting = 5000.0             # definition says: strongly throttled

before = copy.deepcopy(wn.to_dict())
wn_reload = wntr.network.from_dict(copy.deepcopy(before))

r1 = wntr.sim.WNTRSimulator(wn).run_sim()
same_dict = (before == wn.to_dict())
wn.reset_initial_values()
r2 = wntr.sim.WNTRSimulator(wn).run_sim()
r3 = wntr.sim.WNTRSimulator(wn_reload).run_sim()

q1, q2, q3 = (r.link['flowrate']['110'].values for r in (r1, r2, r3))
s1, s2, s3 = (r.link['setting']['V'].values for r in (r1, r2, r3))
ok = same_dict and np.allclose(q1, q2, atol=1e-8) and np.allclose(q1, q3, atol=1e-8) \
    and np.allclose(s1, s2) and np.allclose(s1, s3)
if not ok:
    print('FAIL: pipe 110 (initial_status=%s) flow first run %s, after reset %s, reloaded model %s; '
          'TCV V (initial_setting=%g) setting first run %s, after reset %s, reloaded %s'
          % (wn.get_link('110').initial_status, q1.round(4), q2.round(4), q3.round(4),
             wn.get_link('V').initial_setting, s1, s2, s3))
    sys.exit(1)
print('PASS')
