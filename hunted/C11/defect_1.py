import sys, os; sys.path.insert(0, os.getcwd())
# C11: a valve whose setting is given numerically in the INP [STATUS] section is loaded with
# initial_setting = [STATUS] value but current setting = [VALVES] value.  The first WNTRSimulator
# run uses the [VALVES] value; after reset_initial_values() (or for the from_dict reload of the
# same, untouched model) the [STATUS] value is used -> reset/rerun and reload do not reproduce.
import tempfile, warnings
warnings.filterwarnings('ignore')
import numpy as np
import wntr

INP = """[TITLE]
prv with a numeric setting in STATUS
[JUNCTIONS]
 A   0   0
 B   0   10
[RESERVOIRS]
 R   100
[PIPES]
 P1  R  A  100  300  100  0  Open
[VALVES]
 V   A  B  300  PRV  30  0
[STATUS]
 V   50
[TIMES]
 DURATION 2:00
 HYDRAULIC TIMESTEP 1:00
 REPORT TIMESTEP 1:00
[OPTIONS]
 UNITS LPS
 HEADLOSS H-W
[END]
"""
d = tempfile.mkdtemp()
f = os.path.join(d, 'status_valve.inp')
with open(f, 'w') as fh:
    fh.write(INP)

wn = wntr.network.WaterNetworkModel(f)
before = wn.to_dict()
wn_reload = wntr.network.from_dict(wn.to_dict())          # "reloaded" equal model
v = wn.get_link('V')

r1 = wntr.sim.WNTRSimulator(wn).run_sim()                 # first run on the freshly loaded model
same_dict = (before == wn.to_dict())
wn.reset_initial_values()
r2 = wntr.sim.WNTRSimulator(wn).run_sim()                 # rerun after reset
r3 = wntr.sim.WNTRSimulator(wn_reload).run_sim()          # run of the reloaded model

p1 = r1.node['pressure']['B'].values
p2 = r2.node['pressure']['B'].values
p3 = r3.node['pressure']['B'].values
s1 = r1.link['setting']['V'].values
s2 = r2.link['setting']['V'].values
ok = same_dict and np.allclose(p1, p2, atol=1e-6) and np.allclose(p1, p3, atol=1e-6) and np.allclose(s1, s2)
if not ok:
    print('FAIL: definition initial_setting=%g; pressure at B first run %s (valve setting %s), after reset %s '
          '(valve setting %s), from_dict reload %s; dict unchanged by run: %s'
          % (v.initial_setting, p1.round(3), s1, p2.round(3), s2, p3.round(3), same_dict))
    sys.exit(1)
print('PASS')
