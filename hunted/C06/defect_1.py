import sys, os; sys.path.insert(0, os.getcwd())
# C06 defect 1: a tank with a volume curve loses water / overshoots its limits when one
# hydraulic step would carry the stored volume past the END of the curve: np.interp clamps
# the level, so the overshoot (and the back-track to the crossing time) is under-estimated.
import warnings
import numpy as np
import wntr

warnings.simplefilter('ignore')


def run(curve_pts, min_level, max_level):
    wn = wntr.network.WaterNetworkModel()
    wn.add_pattern('p', [0.2] * 4 + [3] * 6 + [0.1] * 6)   # fill, drain, fill again
    wn.add_reservoir('R', base_head=40.0)
    wn.add_junction('J', base_demand=0.02, demand_pattern='p', elevation=0.0)
    wn.add_curve('vc', 'VOLUME', curve_pts)
    wn.add_tank('T', elevation=30.0, init_level=3.0, min_level=min_level, max_level=max_level,
                diameter=8.0, vol_curve='vc')
    wn.add_pipe('PR', 'R', 'J', length=500, diameter=0.2, roughness=100)
    wn.add_pipe('PT', 'J', 'T', length=100, diameter=0.3, roughness=100)
    wn.options.time.hydraulic_timestep = 3600
    wn.options.time.pattern_timestep = 3600
    wn.options.time.duration = 16 * 3600
    wn.options.time.report_timestep = 'all'     # every solved step is reported
    res = wntr.sim.WNTRSimulator(wn).run_sim()
    lvl = (res.node['head']['T'] - 30.0).values
    q = res.node['demand']['T'].values
    t = np.array(res.node['head'].index, dtype=float)
    pts = np.array(curve_pts, dtype=float)

    def vol(level):   # piecewise linear volume curve, linearly continued beyond its ends
        if level > pts[-1, 0]:
            return pts[-1, 1] + (level - pts[-1, 0]) * (pts[-1, 1] - pts[-2, 1]) / (pts[-1, 0] - pts[-2, 0])
        if level < pts[0, 0]:
            return pts[0, 1] + (level - pts[0, 0]) * (pts[1, 1] - pts[0, 1]) / (pts[1, 0] - pts[0, 0])
        return float(np.interp(level, pts[:, 0], pts[:, 1]))

    # (a) integration identity: V(t1) - V(t0) == q(t0) * (t1 - t0)
    worst_int = (0.0, None)
    for i in range(len(t) - 1):
        err = abs((vol(lvl[i + 1]) - vol(lvl[i])) - q[i] * (t[i + 1] - t[i]))
        if err > worst_int[0]:
            worst_int = (err, (t[i], t[i + 1], vol(lvl[i + 1]) - vol(lvl[i]), q[i] * (t[i + 1] - t[i])))
    # (b) limits, with a slack of 5 s of the largest tank flow through the smallest area
    amin = min(np.diff(pts[:, 1]) / np.diff(pts[:, 0]))
    slack = 5.0 * np.abs(q).max() / amin + 1e-6
    excess = max(lvl.max() - max_level, min_level - lvl.min())
    return worst_int, excess, slack, lvl.min(), lvl.max()


msgs = []
# curve that ends exactly at max_level (accepted by add_tank): water disappears at the top
(err, info), excess, slack, lo, hi = run([(0, 0), (2, 100), (4, 500), (5, 550)], 0.0, 5.0)
if err > 1e-3:
    msgs.append('curve ending at max_level: between t=%d and t=%d stored volume changed by %.2f m3 '
                'but reported net inflow*dt = %.2f m3 (%.2f m3 lost)' % (info[0], info[1], info[2], info[3], err))
# curve that extends one metre beyond max_level and starts one metre below min_level
(err, info), excess, slack, lo, hi = run([(0, 0), (2, 100), (4, 500), (6, 600)], 1.0, 5.0)
if excess > slack:
    msgs.append('curve (0..6 m), limits [1, 5]: level range [%.3f, %.3f] leaves the limits by %.3f m '
                '(allowed slack %.4f m)' % (lo, hi, excess, slack))
if err > 1e-3:
    msgs.append('curve (0..6 m): identity error %.2f m3' % err)

if msgs:
    print('FAIL: ' + ' | '.join(msgs))
    sys.exit(1)
print('PASS')
