import sys, os; sys.path.insert(0, os.getcwd())
# C06 defect 2: a valve whose (user) status is OPEN and that is connected to a tank is never
# closed by the tank min/max-level controls: Valve.status returns Open whenever the user
# status is Open and ignores _internal_status == Closed (Pipe.status / Pump.status honour it).
# The tank then fills far above max_level and drains far below min_level (even below 0).
import warnings
import numpy as np
import wntr

warnings.simplefilter('ignore')

ELEV, MIN_L, MAX_L, DIAM = 30.0, 1.0, 5.0, 8.0
wn = wntr.network.WaterNetworkModel()
wn.add_pattern('p', [0.2] * 4 + [3] * 6 + [0.1] * 6)   # fill, drain, fill again
wn.add_reservoir('R', base_head=40.0)
wn.add_junction('J', base_demand=0.02, demand_pattern='p', elevation=0.0)
wn.add_tank('T', elevation=ELEV, init_level=3.0, min_level=MIN_L, max_level=MAX_L, diameter=DIAM)
wn.add_pipe('PR', 'R', 'J', length=500, diameter=0.2, roughness=100)
# throttle control valve with fixed status OPEN (same as "[STATUS]  V  OPEN" in an INP file)
wn.add_valve('V', 'J', 'T', diameter=0.3, valve_type='TCV', initial_setting=5.0, initial_status='OPEN')
wn.options.time.hydraulic_timestep = 3600
wn.options.time.pattern_timestep = 3600
wn.options.time.duration = 16 * 3600
wn.options.time.report_timestep = 'all'
wn.reset_initial_values()          # public API; applies initial_status (OPEN) to the valve

res = wntr.sim.WNTRSimulator(wn).run_sim()
lvl = (res.node['head']['T'] - ELEV).values
q = res.node['demand']['T'].values
t = list(res.node['head'].index)
area = np.pi / 4.0 * DIAM ** 2
slack = 5.0 * np.abs(q).max() / area + 1e-6     # 5 s of the largest tank flow

msgs = []
if lvl.max() > MAX_L + slack:
    i = int(lvl.argmax())
    msgs.append('level %.3f m at t=%d > max_level %.1f (slack %.4f)' % (lvl[i], t[i], MAX_L, slack))
if lvl.min() < MIN_L - slack:
    i = int(lvl.argmin())
    msgs.append('level %.3f m at t=%d < min_level %.1f (slack %.4f)' % (lvl[i], t[i], MIN_L, slack))
fill = [(t[i], lvl[i], q[i]) for i in range(len(t)) if lvl[i] >= MAX_L and q[i] > 1e-6]
drain = [(t[i], lvl[i], q[i]) for i in range(len(t)) if lvl[i] <= MIN_L and q[i] < -1e-6]
if fill:
    msgs.append('tank at/above max_level still fills: t=%d level=%.3f net inflow=%.5f m3/s' % fill[0])
if drain:
    msgs.append('tank at/below min_level still discharges: t=%d level=%.3f net inflow=%.5f m3/s' % drain[0])

if msgs:
    print('FAIL: ' + ' | '.join(msgs))
    sys.exit(1)
print('PASS')
