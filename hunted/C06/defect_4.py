import sys, os; sys.path.insert(0, os.getcwd())
# C06 defect 4: a head pump that delivers into a tank lets the tank drain BACKWARDS through the
# running pump.  For q < 0 the pump equation is the flat line  dh = Hmax + 1e-11*|q|, and the
# only reverse-flow guard (_CloseHeadPumpCondition) tests  dh > Hmax + Htol, which such a
# solution never satisfies; it does not look at the flow (the check-valve twin does).  The tank
# min-level controls skip pumps that end at the tank ("pumps have check valves"), so nothing
# stops the discharge at min_level: the level falls below min_level and below the tank bottom.
import warnings
import numpy as np
import wntr

warnings.simplefilter('ignore')

ELEV, MIN_L, MAX_L, DIAM = 50.0, 1.0, 5.0, 8.0
wn = wntr.network.WaterNetworkModel()
wn.add_pattern('p', [0.5] * 1 + [3] * 11)       # low demand (pump fills tank), then peak demand
wn.add_pattern('p2', [1.0])
wn.add_reservoir('R', base_head=40.0)
wn.add_junction('J', base_demand=0.02, demand_pattern='p', elevation=0.0)
wn.add_junction('J2', base_demand=0.002, demand_pattern='p2', elevation=20.0)
wn.add_tank('T', elevation=ELEV, init_level=3.0, min_level=MIN_L, max_level=MAX_L, diameter=DIAM)
wn.add_curve('pc', 'HEAD', [(0.03, 15.0)])       # single point curve: shutoff head 20 m
wn.add_pipe('PR', 'R', 'J', length=500, diameter=0.2, roughness=100)
wn.add_pump('PU', 'J', 'T', pump_type='HEAD', pump_parameter='pc')     # pump delivers INTO the tank
wn.add_pipe('PO', 'T', 'J2', length=100, diameter=0.2, roughness=100)  # tank outlet to its service area
wn.options.time.hydraulic_timestep = 3600
wn.options.time.pattern_timestep = 3600
wn.options.time.duration = 12 * 3600
wn.options.time.report_timestep = 'all'

res = wntr.sim.WNTRSimulator(wn).run_sim()
t = list(res.node['head'].index)
lvl = (res.node['head']['T'] - ELEV).values
q = res.node['demand']['T'].values
fpump = res.link['flowrate']['PU'].values
spump = res.link['status']['PU'].values
area = np.pi / 4.0 * DIAM ** 2
slack = 5.0 * np.abs(q).max() / area + 1e-6     # 5 s of the largest tank flow

msgs = []
rev = [(t[i], fpump[i]) for i in range(len(t)) if spump[i] != 0 and fpump[i] < -1e-6]
if rev:
    msgs.append('open pump J->T carries reverse flow %.5f m3/s at t=%d (tank drains through it)'
                % (rev[0][1], rev[0][0]))
if lvl.min() < MIN_L - slack:
    i = int(lvl.argmin())
    msgs.append('tank level %.3f m at t=%d < min_level %.1f (slack %.4f)' % (lvl[i], t[i], MIN_L, slack))
drain = [(t[i], lvl[i], q[i]) for i in range(len(t)) if lvl[i] <= MIN_L and q[i] < -1e-6]
if drain:
    msgs.append('tank at/below min_level still discharges: t=%d level=%.3f net inflow=%.5f m3/s' % drain[0])

if msgs:
    print('FAIL: ' + ' | '.join(msgs))
    sys.exit(1)
print('PASS')
