import sys, os; sys.path.insert(0, os.getcwd())
# C06 defect 3: a pipe that joins two tanks.  The "re-open" control of the tank at one end
# (priority high: "I am full but my head is above the neighbour's, so flow would leave me")
# overrides the "close" control (priority medium) of the tank at the other end, which is full
# too.  The upper full tank keeps emptying into the lower full tank, which overfills by metres.
import warnings
import numpy as np
import wntr

warnings.simplefilter('ignore')

TANKS = {'T': dict(elevation=30.0, init_level=3.0, min_level=1.0, max_level=5.0, diameter=8.0),
         'T2': dict(elevation=29.0, init_level=3.2, min_level=1.5, max_level=4.5, diameter=6.0)}
wn = wntr.network.WaterNetworkModel()
wn.add_pattern('p', [0.2] * 4 + [3] * 6 + [0.1] * 6)
wn.add_reservoir('R', base_head=40.0)
wn.add_junction('J', base_demand=0.02, demand_pattern='p', elevation=0.0)
for name, kw in TANKS.items():
    wn.add_tank(name, **kw)
wn.add_pipe('PR', 'R', 'J', length=500, diameter=0.2, roughness=100)
wn.add_pipe('PT', 'J', 'T', length=100, diameter=0.3, roughness=100)
wn.add_pipe('PTT', 'T', 'T2', length=100, diameter=0.2, roughness=100)   # tank-to-tank pipe
wn.options.time.hydraulic_timestep = 3600
wn.options.time.pattern_timestep = 3600
wn.options.time.duration = 4 * 3600
wn.options.time.report_timestep = 'all'

res = wntr.sim.WNTRSimulator(wn).run_sim()
t = list(res.node['head'].index)
msgs = []
for name, kw in TANKS.items():
    lvl = (res.node['head'][name] - kw['elevation']).values
    q = res.node['demand'][name].values
    area = np.pi / 4.0 * kw['diameter'] ** 2
    slack = 5.0 * np.abs(q).max() / area + 1e-6      # 5 s of the largest tank flow
    if lvl.max() > kw['max_level'] + slack:
        i = int(lvl.argmax())
        msgs.append('%s level %.3f m at t=%d > max_level %.1f (slack %.4f)'
                    % (name, lvl[i], t[i], kw['max_level'], slack))
    if lvl.min() < kw['min_level'] - slack:
        i = int(lvl.argmin())
        msgs.append('%s level %.3f m at t=%d < min_level %.1f (slack %.4f)'
                    % (name, lvl[i], t[i], kw['min_level'], slack))
    fill = [(name, t[i], lvl[i], q[i]) for i in range(len(t)) if lvl[i] >= kw['max_level'] and q[i] > 1e-6]
    if fill:
        msgs.append('%s at t=%d is at/above max_level (level %.4f) and still fills with %.5f m3/s' % fill[0])

if msgs:
    print('FAIL: ' + ' | '.join(msgs))
    sys.exit(1)
print('PASS')
