import sys, os; sys.path.insert(0, os.getcwd())
# C10 defect 1: a continued run whose remaining span contains no hydraulic step still solves one step,
# so the paused+continued run steps PAST the requested end time T (uninterrupted run never does).
import pickle, warnings
import pandas as pd
import wntr
warnings.simplefilter('ignore')

INP = 'examples/networks/Net1.inp'   # hydraulic step 3600 s
H = 3600


def run_to(wn, duration):
    wn.options.time.duration = duration
    return wntr.sim.WNTRSimulator(wn).run_sim()


def times(parts):
    out = []
    for r in parts:
        out += [int(t) for t in r.node['head'].index]
    return out


problems = []

# (a) T = 5.5 h (not a multiple of the step), one pause at 5 h (on the hydraulic grid), pickle round trip
T = int(5.5 * H)
full = run_to(wntr.network.WaterNetworkModel(INP), T)
wn = wntr.network.WaterNetworkModel(INP)
p1 = run_to(wn, 5 * H)
wn = pickle.loads(pickle.dumps(wn))
p2 = run_to(wn, T)
t_full, t_cont = times([full]), times([p1, p2])
if t_cont != t_full or max(t_cont) > T:
    problems.append('T=%d s, pause at %d s: uninterrupted times end at %d, paused+continued times end at %d '
                    '(> T; extra rows %s)' % (T, 5 * H, t_full[-1], t_cont[-1],
                                              [t for t in t_cont if t not in t_full]))

# (b) T = 5 h on the grid, pauses at 2 h and at 5 h (stepping loop whose last pause coincides with T)
T = 5 * H
full = run_to(wntr.network.WaterNetworkModel(INP), T)
wn = wntr.network.WaterNetworkModel(INP)
parts = [run_to(wn, 2 * H), run_to(wn, 5 * H), run_to(wn, T)]
t_full, t_cont = times([full]), times(parts)
if t_cont != t_full or max(t_cont) > T:
    problems.append('T=%d s, pauses at %d and %d s: uninterrupted times end at %d, paused+continued times end at %d '
                    '(extra rows %s)' % (T, 2 * H, 5 * H, t_full[-1], t_cont[-1],
                                         [t for t in t_cont if t not in t_full]))
else:
    # values must agree too
    for grp, key in [('node', 'head'), ('node', 'demand'), ('link', 'flowrate'), ('link', 'status')]:
        f = getattr(full, grp)[key].astype(float)
        c = pd.concat([getattr(r, grp)[key] for r in parts]).astype(float)
        d = (f - c).abs().max().max()
        if d > 1e-4:
            problems.append('%s.%s differs by %g' % (grp, key, d))

if problems:
    print('FAIL: ' + ' | '.join(problems))
    sys.exit(1)
print('PASS')
sys.exit(0)
