import sys, os; sys.path.insert(0, os.getcwd())
# C02: "active TCVs and open valves obey their loss coefficient" (an odd, increasing function
# of flow).  A PRV or PSV whose status is fixed OPEN (EPANET [STATUS] "V OPEN") and that carries
# reverse flow reports a head GAIN in the flow direction: the OPEN branch of prv_/psv_
# headloss_constraint is  K*q**2 - Hs + He = 0  (even in q), unlike the FCV/TCV siblings which
# switch sign with the flow direction.
import math, warnings
warnings.simplefilter('ignore')
import wntr

def run(vtype):
    wn = wntr.network.WaterNetworkModel()
    wn.add_reservoir('R', base_head=100.0)
    wn.add_reservoir('R2', base_head=120.0)          # higher than R: flow goes J2 -> J1
    wn.add_junction('J1', base_demand=0.0, elevation=10.0)
    wn.add_junction('J2', base_demand=0.0, elevation=5.0)
    wn.add_pipe('p1', 'R', 'J1', length=200, diameter=0.3, roughness=100)
    wn.add_valve('V', 'J1', 'J2', diameter=0.2, valve_type=vtype, minor_loss=5.0,
                 initial_setting=20.0, initial_status='OPEN')
    wn.add_pipe('p2', 'J2', 'R2', length=200, diameter=0.3, roughness=100)
    wn.options.time.duration = 0
    wn.reset_initial_values()                         # make the user status OPEN effective
    res = wntr.sim.WNTRSimulator(wn).run_sim()
    q = res.link['flowrate'].at[0, 'V']
    st = int(res.link['status'].at[0, 'V'])
    hs = res.node['head'].at[0, 'J1']; he = res.node['head'].at[0, 'J2']
    K = 8.0 * 5.0 / (9.81 * math.pi ** 2 * 0.2 ** 4)
    expected = math.copysign(K * q * q, q)            # odd loss law  Hs - He = K*q*|q|
    return st, q, hs - he, expected

msgs = []
for vtype in ['PRV', 'PSV', 'FCV', 'TCV']:
    st, q, dh, exp = run(vtype)
    if st == 1 and abs(dh - exp) > 1e-3:
        msgs.append('%s status=OPEN q=%.5f Hs-He=%+.4f m, expected %+.4f m (water flows from head '
                    'lower to higher through the valve)' % (vtype, q, dh, exp))
if msgs:
    print('FAIL: ' + ' | '.join(msgs))
    sys.exit(1)
print('PASS')
