import sys, os; sys.path.insert(0, os.getcwd())
# C02: "Pumps ... never report reverse flow beyond the flow tolerance."
# A constant-power pump lifting water from a reservoir (head 10 m) to a tank (head 35 m) is
# reported OPEN with a large NEGATIVE flow.  The power constraint P + (Hs-He)*q*9810 = 0 is a
# hyperbola with a second root at q<0 (head gain < 0); nothing rejects that root because
# _ClosePowerPumpCondition never looks at the flow (Hmax = 1e10).
import warnings
warnings.simplefilter('ignore')
import wntr

Qtol = 2.83168e-6
wn = wntr.network.WaterNetworkModel()
wn.add_reservoir('R', base_head=10.0)
wn.add_junction('J1', base_demand=0.0, elevation=0.0)
wn.add_tank('T', elevation=30.0, init_level=5.0, min_level=0.0, max_level=10.0, diameter=5.0)
wn.add_pump('P', 'R', 'J1', pump_type='POWER', pump_parameter=5000.0)     # 5 kW
wn.add_pipe('p1', 'J1', 'T', length=400.0, diameter=0.3, roughness=100, minor_loss=0.0)
wn.options.time.duration = 0
res = wntr.sim.WNTRSimulator(wn).run_sim()

assert len(res.link['flowrate']) > 0, 'simulation produced no results'
q = res.link['flowrate'].at[0, 'P']
st = int(res.link['status'].at[0, 'P'])
gain = res.node['head'].at[0, 'J1'] - res.node['head'].at[0, 'R']
if q < -Qtol:
    print('FAIL: power pump P reported status=%d with reverse flow q=%.6f m3/s (< -Qtol=%.2e); '
          'head "gain"=%.4f m, gain*q*9810=%.1f W (forward solution would be q~+0.02 m3/s)'
          % (st, q, Qtol, gain, gain * q * 9810.0))
    sys.exit(1)
if st != 0:
    p = gain * q * 9810.0
    assert abs(p - 5000.0) < 5.0, 'FAIL: delivered power %g W != 5000 W' % p
print('PASS')
