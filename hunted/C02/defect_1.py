import sys, os; sys.path.insert(0, os.getcwd())
# C02: "Pumps ... never report reverse flow beyond the flow tolerance."
# An OPEN head pump reports a large reverse flow when the downstream head exceeds its shutoff
# head: _CloseHeadPumpCondition only closes on dh > Hmax + Htol, but the model extends the pump
# curve below q=0 with slope -1e-11, so dh never exceeds Hmax measurably and the pump stays open.
import warnings
warnings.simplefilter('ignore')
import wntr

Qtol = 2.83168e-6
wn = wntr.network.WaterNetworkModel()
wn.add_reservoir('R1', base_head=0.0)
wn.add_junction('J', base_demand=0.0, elevation=0.0)
wn.add_tank('T', elevation=0.0, init_level=50.0, min_level=0.0, max_level=100.0, diameter=30.0)
wn.add_curve('C1', 'HEAD', [(0.05, 30.0)])          # 1-point curve: shutoff head A = 40 m
wn.add_pump('P', 'R1', 'J', pump_type='HEAD', pump_parameter='C1')
wn.add_pipe('p1', 'J', 'T', length=100.0, diameter=0.3, roughness=100, minor_loss=0.0)
wn.options.time.duration = 3600
res = wntr.sim.WNTRSimulator(wn).run_sim()

bad = []
for t in res.link['flowrate'].index:
    q = res.link['flowrate'].at[t, 'P']
    st = int(res.link['status'].at[t, 'P'])
    gain = res.node['head'].at[t, 'J'] - res.node['head'].at[t, 'R1']
    if q < -Qtol:
        bad.append('t=%d status=%d flow=%.6f m3/s (< -Qtol=%.2e), head gain=%.4f m' % (t, st, q, Qtol, gain))
if bad:
    print('FAIL: head pump P (shutoff head 40 m, tank head 50 m) reports reverse flow: ' + '; '.join(bad))
    sys.exit(1)
print('PASS')
