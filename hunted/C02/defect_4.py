import sys, os; sys.path.insert(0, os.getcwd())
# C02: "open head pumps lie on H = A - B*Q^C fitted to their curve".
# HeadPump.get_head_curve_coefficients caches (A,B,C) and keeps `curve.points` BY REFERENCE to
# detect later edits, so an in-place edit of the curve (curve.points[0] = ..., .append(...)) is
# compared with itself, never detected, and the next simulation silently uses the old curve.
import warnings
warnings.simplefilter('ignore')
import wntr

wn = wntr.network.WaterNetworkModel()
wn.add_reservoir('R', base_head=10.0)
wn.add_junction('J', base_demand=0.03, elevation=0.0)
wn.add_curve('C', 'HEAD', [(0.05, 30.0)])
wn.add_pump('P', 'R', 'J', pump_type='HEAD', pump_parameter='C')
wn.options.time.duration = 0
r1 = wntr.sim.WNTRSimulator(wn).run_sim()
gain1 = r1.node['head'].at[0, 'J'] - r1.node['head'].at[0, 'R']

wn.get_curve('C').points[0] = (0.05, 60.0)          # the design head is doubled, in place
wn.reset_initial_values()
r2 = wntr.sim.WNTRSimulator(wn).run_sim()
q = r2.link['flowrate'].at[0, 'P']
gain2 = r2.node['head'].at[0, 'J'] - r2.node['head'].at[0, 'R']

Q0, H0 = wn.get_curve('C').points[0]                 # 1-point curve: A=4/3 H0, B=H0/(3 Q0^2), C=2
expected = 4.0 / 3.0 * H0 - H0 / (3.0 * Q0 ** 2) * q ** 2
if abs(gain2 - expected) > 1e-3:
    print('FAIL: pump curve is now %s but the open pump (q=%.4f) reports head gain %.4f m '
          '(same as before the edit: %.4f m); the curve fitted to the current points gives %.4f m; '
          'cached coefficients %s' % (wn.get_curve('C').points, q, gain2, gain1, expected,
                                      wn.get_link('P').get_head_curve_coefficients()))
    sys.exit(1)
print('PASS')
