import sys, os; sys.path.insert(0, os.getcwd())
# C14: "Removing an element that is still in use is refused"; usage records are per element.
# add_junction documents demand_pattern as "str or Pattern".  With a Pattern object the usage
# record is filed under the object instead of the pattern name, so remove_pattern does not see
# it and deletes a pattern that a junction still uses.
import warnings, logging
warnings.simplefilter("ignore"); logging.disable(logging.CRITICAL)
import wntr

def run(as_object):
    wn = wntr.network.WaterNetworkModel()
    wn.add_pattern('PAT', [1.0, 2.0, 3.0])
    pat = wn.get_pattern('PAT')
    wn.add_junction('J', base_demand=1.0, demand_pattern=(pat if as_object else 'PAT'))
    j = wn.get_node('J')
    assert j.demand_timeseries_list[0].pattern_name == 'PAT'
    assert j.demand_timeseries_list.at(3600) == 2.0
    usage = wn._pattern_reg.get_usage('PAT')
    refused = False
    try:
        wn.remove_pattern('PAT')
    except RuntimeError:
        refused = True
    return (list(usage) if usage else []), refused, list(wn.pattern_name_list), j.demand_timeseries_list.at(3600)

u0, r0, l0, d0 = run(False)
assert u0 == [('J', 'Junction')] and r0 and l0 == ['PAT'] and d0 == 2.0, (u0, r0, l0, d0)
u1, r1, l1, d1 = run(True)
if (u1, r1, l1, d1) != (u0, r0, l0, d0):
    print("FAIL: demand_pattern given as Pattern object: get_usage('PAT')=%r, remove_pattern refused=%r, "
          "pattern_name_list=%r, J demand at t=3600 is %r; given by name: %r, %r, %r, %r"
          % (u1, r1, l1, d1, u0, r0, l0, d0))
    sys.exit(1)
print("PASS")
