import sys, os; sys.path.insert(0, os.getcwd())
# C14: "usage records mention only existing users".  Removing a junction whose demand uses a
# pattern with zero multipliers (legal: such a pattern evaluates to 1.0) leaves the junction
# in that pattern's usage record, so the now unused pattern can never be removed.
import warnings, logging
warnings.simplefilter("ignore"); logging.disable(logging.CRITICAL)
import wntr

def run(multipliers):
    wn = wntr.network.WaterNetworkModel()
    wn.add_pattern('PAT', multipliers)
    wn.add_junction('J', base_demand=1.0, demand_pattern='PAT')
    assert ('J', 'Junction') in wn._pattern_reg.get_usage('PAT')
    wn.remove_node('J')
    assert wn.node_name_list == []
    stale = wn._pattern_reg.get_usage('PAT')
    refused = False
    try:
        wn.remove_pattern('PAT')
    except RuntimeError:
        refused = True
    return (list(stale) if stale else []), refused, list(wn.pattern_name_list)

ok_stale, ok_refused, ok_left = run([1.0, 2.0])     # control case: non-empty pattern
stale, refused, left = run([])                       # empty pattern
if ok_stale or ok_refused or ok_left:
    print("FAIL: (control case) stale=%r refused=%r left=%r" % (ok_stale, ok_refused, ok_left)); sys.exit(1)
if stale or refused or left:
    print("FAIL: after remove_node('J') (num_nodes=0) usage['PAT']=%r, remove_pattern refused=%r, "
          "pattern_name_list=%r; with a 2-value pattern: usage=[], refused=False, list=[]"
          % (stale, refused, left))
    sys.exit(1)
print("PASS")
