import sys, os; sys.path.insert(0, os.getcwd())
# C14: "usage records mention only existing users"; get_links_for_node reflects exactly
# the existing links.  An add_pipe/add_pump/add_valve that fails because the END node does
# not exist has already recorded the new link as a user of the START node.
import warnings, logging
warnings.simplefilter("ignore"); logging.disable(logging.CRITICAL)
import wntr

wn = wntr.network.WaterNetworkModel()
wn.add_junction('A'); wn.add_junction('B')
failed = False
try:
    wn.add_pipe('P1', 'A', 'ZZ')          # typo: there is no node 'ZZ'
except KeyError:
    failed = True
assert failed and wn.link_name_list == [] and wn.num_links == 0

problems = []
usage = wn._node_reg.get_usage('A')
if usage:
    problems.append("usage['A']=%r names link 'P1' but link_name_list=%r" % (list(usage), wn.link_name_list))
try:
    l = wn.get_links_for_node('A')
    if l != []:
        problems.append("get_links_for_node('A')=%r, expected []" % l)
except KeyError as e:
    problems.append("get_links_for_node('A') raised KeyError(%s)" % e)
try:
    wn.remove_node('A')                   # nothing uses A, must succeed
    if 'A' in wn.node_name_list:
        problems.append("remove_node('A') silently did nothing")
except RuntimeError as e:
    problems.append("remove_node('A') refused although num_links=%d" % wn.num_links)

if problems:
    print("FAIL: " + "; ".join(problems)); sys.exit(1)
print("PASS")
