import sys, os; sys.path.insert(0, os.getcwd())
# C14: "Removing an element that is still in use is refused and leaves the model unchanged."
# remove_node(name, with_control=True) on a node that still has a pipe attached is refused
# (RuntimeError) -- but the controls that mention the node have already been deleted.
import warnings, logging
warnings.simplefilter("ignore"); logging.disable(logging.CRITICAL)
import wntr
from wntr.network import controls

wn = wntr.network.WaterNetworkModel()
wn.add_junction('A'); wn.add_junction('B')
wn.add_pipe('P1', 'A', 'B')
cond = controls.ValueCondition(wn.get_node('A'), 'pressure', '<', 10.0)
act = controls.ControlAction(wn.get_link('P1'), 'status', 0)
wn.add_control('ctl', controls.Control(cond, act))

before = (list(wn.node_name_list), list(wn.link_name_list), list(wn.control_name_list))
refused = False
try:
    wn.remove_node('A', with_control=True)   # A is still the start node of P1
except RuntimeError:
    refused = True
after = (list(wn.node_name_list), list(wn.link_name_list), list(wn.control_name_list))

if refused and after != before:
    print("FAIL: removal of node 'A' was refused but the model changed: "
          "controls before=%r after=%r (nodes %r, links %r unchanged)"
          % (before[2], after[2], after[0], after[1]))
    sys.exit(1)
if not refused and 'A' in wn.node_name_list:
    print("FAIL: node 'A' neither removed nor refused"); sys.exit(1)
print("PASS")
