import sys, os; sys.path.insert(0, os.getcwd())
# C08: remove_leak removes the leak completely -- also on a model that went through
# to_dict/from_dict (write_json/read_json).
# Observed: from_dict renames every simple control to 'control N', remove_leak discards the
# start/end controls by their original names, so the start control survives and the "removed"
# leak discharges during its window.
import math, warnings
warnings.simplefilter('ignore')
import wntr

wn = wntr.network.WaterNetworkModel('examples/networks/Net1.inp')
wn.options.time.duration = 4 * 3600
wn.get_node('11').add_leak(wn, 0.001, 0.6, start_time=3600, end_time=3 * 3600)   # junction
wn.get_node('2').add_leak(wn, 0.002, 0.7, start_time=3600, end_time=None)        # tank

wn2 = wntr.network.from_dict(wntr.network.to_dict(wn))     # same code path as write_json/read_json
assert wn2.get_node('11').leak_area == 0.001 and wn2.get_node('2').leak_area == 0.002

# sanity: the reloaded model still has both leaks
res0 = wntr.sim.WNTRSimulator(wn2).run_sim()
assert res0.node['leak_demand'].loc[7200, '11'] > 0 and res0.node['leak_demand'].loc[7200, '2'] > 0
wn2.reset_initial_values()

for name in ('11', '2'):
    wn2.get_node(name).remove_leak(wn2)
left = [n for n, c in wn2.controls() if 'LEAK_STATUS' in str(c).upper()]

res = wntr.sim.WNTRSimulator(wn2).run_sim()
ld = res.node['leak_demand'][['11', '2']]
p = res.node['pressure'][['11', '2']]
worst = ld.abs().max().max()
if worst > 1e-9:
    t = 7200
    print('FAIL: after remove_leak on the reloaded model leak_demand is not zero: at t=%d junction 11 '
          'leaks %.6f m3/s (p=%.3f m), tank 2 leaks %.6f m3/s (p=%.3f m); expected 0 and 0. '
          'Leak controls still registered: %s'
          % (t, ld.loc[t, '11'], p.loc[t, '11'], ld.loc[t, '2'], p.loc[t, '2'], left))
    sys.exit(1)
print('PASS')
