import sys, os; sys.path.insert(0, os.getcwd())
# C08: a refused (raising) second add_leak must not change the leak that is simulated.
# Observed: add_leak overwrites area/discharge coefficient (and may register the new start control)
# BEFORE wn.add_control refuses the duplicate control name, so the old window runs with the new area.
import math, warnings
warnings.simplefilter('ignore')
import wntr

G = 9.81
A1, CD1, S1, E1 = 0.001, 0.60, 3600, 7200      # first leak (accepted)
A2, CD2, S2, E2 = 0.002, 0.90, 10800, 14400    # second call on the same junction

wn = wntr.network.WaterNetworkModel('examples/networks/Net1.inp')
wn.options.time.duration = 5 * 3600
j = wn.get_node('11')
j.add_leak(wn, A1, CD1, start_time=S1, end_time=E1)
try:
    j.add_leak(wn, A2, CD2, start_time=S2, end_time=E2)
    refused = False
except Exception as exc:
    refused = True
    print('second add_leak refused:', type(exc).__name__)

# whichever call is in force must be in force completely (area, coefficient AND window)
A, CD, S, E = (A1, CD1, S1, E1) if refused else (A2, CD2, S2, E2)

res = wntr.sim.WNTRSimulator(wn).run_sim()
p = res.node['pressure']['11']
ld = res.node['leak_demand']['11']
bad = []
for t in p.index:
    active = S <= t < E
    exp = CD * A * math.sqrt(2 * G * p[t]) if (active and p[t] > 1e-4) else 0.0
    if abs(ld[t] - exp) > 1e-6:
        bad.append((int(t), round(float(p[t]), 4), float(ld[t]), exp))
if bad:
    t, pp, got, exp = bad[0]
    print('FAIL: add_leak(area=%g, Cd=%g, %d..%d) in force (second call %s), but at t=%d p=%.4f m '
          'leak_demand=%.6f, expected Cd*A*sqrt(2gp)=%.6f (ratio %.3f); node now has leak_area=%g, Cd=%g'
          % (A, CD, S, E, 'refused' if refused else 'accepted', t, pp, got, exp, got / exp if exp else float('nan'),
             j.leak_area, j.leak_discharge_coeff))
    sys.exit(1)
print('PASS')
