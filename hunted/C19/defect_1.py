import sys, os; sys.path.insert(0, os.getcwd())
# C19 / split_pipe: the new pipe is created with the *current simulation status*
# (pipe.status) of the original pipe instead of its base status (pipe.initial_status).
# A pipe that was closed and has been re-opened through the documented attribute
# `initial_status` (the `status` setter is deprecated and raises) is Open in every
# simulation, but its split-off half is created permanently Closed.
import warnings; warnings.filterwarnings('ignore')
import wntr
from wntr.network import LinkStatus

wn = wntr.network.WaterNetworkModel('examples/networks/Net1.inp')
wn.options.time.duration = 3600
p = wn.get_link('11')
p.initial_status = LinkStatus.Closed      # model state: pipe 11 closed ...
wn.reset_initial_values()
p.initial_status = LinkStatus.Open        # ... user re-opens it (only supported way)
assert p.initial_status == LinkStatus.Open

wn2 = wntr.morph.split_pipe(wn, '11', '11_B', 'J_11', split_at_point=0.5)
old, new = wn2.get_link('11'), wn2.get_link('11_B')

wn.reset_initial_values(); wn2.reset_initial_values()
r0 = wntr.sim.EpanetSimulator(wn).run_sim(file_prefix='/tmp/huntout/C19/d1a')
r1 = wntr.sim.EpanetSimulator(wn2).run_sim(file_prefix='/tmp/huntout/C19/d1b')
q0 = float(r0.link['flowrate'].loc[0, '11'])
q1 = float(r1.link['flowrate'].loc[0, '11'])
dh = float((r1.node['head'][wn.node_name_list] - r0.node['head']).abs().max().max())

ok = (new.initial_status == old.initial_status == LinkStatus.Open) and dh < 1e-2
if not ok:
    print('FAIL: original pipe initial_status=%s, new pipe initial_status=%s; '
          'flow in pipe 11 before split %.5f m3/s, after split %.2e m3/s; '
          'max head change at original nodes %.3f m'
          % (old.initial_status.name, new.initial_status.name, q0, q1, dh))
    sys.exit(1)
print('PASS')
