import sys, os; sys.path.insert(0, os.getcwd())
# C19 / skeletonize: for the shipped example Net2 (junction '1' carries the [SOURCES]
# entry) every option set that includes branch trimming raises RuntimeError instead of
# returning a skeleton + map; with return_copy=False the caller's model is left half
# modified (pipe removed, demand moved, junction still present and disconnected).
import warnings; warnings.filterwarnings('ignore')
import numpy as np
import wntr

def total_demand(wn, times):
    return np.array([sum(d.at(t) for _, j in wn.junctions() for d in j.demand_timeseries_list)
                     for t in times])

wn = wntr.network.WaterNetworkModel('examples/networks/Net2.inp')
n_links, n_nodes = wn.num_links, wn.num_nodes
deg0 = len(wn.get_links_for_node('1'))
times = np.arange(0, 55 * 3600, 3600)
try:
    sk, m = wntr.morph.skeletonize(wn, 12 * 0.0254, return_map=True, return_copy=False,
                                   use_epanet=False)
except RuntimeError as e:
    print('FAIL: skeletonize(Net2, 12 in) raised RuntimeError: %s | input model after the '
          'failed call (return_copy=False): links %d -> %d, nodes %d -> %d, links at source '
          'junction "1": %d -> %d, its demand entries: %d'
          % (e, n_links, wn.num_links, n_nodes, wn.num_nodes, deg0,
             len(wn.get_links_for_node('1')), len(wn.get_node('1').demand_timeseries_list)))
    sys.exit(1)

ref = wntr.network.WaterNetworkModel('examples/networks/Net2.inp')
ok = all(n in sk.node_name_list for n in ref.tank_name_list + ref.reservoir_name_list)
ok &= all(s.node_name in sk.node_name_list for _, s in sk.sources())
ok &= bool(np.allclose(total_demand(ref, times), total_demand(sk, times), rtol=1e-9))
seen = [x for k, v in m.items() for x in v]
ok &= sorted(seen) == sorted(ref.node_name_list)
ok &= all((not v) or (k in sk.node_name_list) for k, v in m.items())
if not ok:
    print('FAIL: skeleton of Net2 violates keep/demand/map clauses'); sys.exit(1)
print('PASS')
