import sys, os; sys.path.insert(0, os.getcwd())
# C19 / split_pipe, break_pipe on a pipe with vertices: a vertex whose coordinates equal
# the start node's coordinates is dropped from both halves (the "skip the first segment"
# test compares coordinates by value instead of skipping index 0).  Polylines exported
# from GIS often repeat the end points as vertices; a pipe drawn as a loop does too.
import warnings; warnings.filterwarnings('ignore')
import math
import wntr

def plen(pts):
    return sum(math.dist(a, b) for a, b in zip(pts[:-1], pts[1:]))

wn = wntr.network.WaterNetworkModel()
wn.add_reservoir('R', base_head=50.0, coordinates=(0.0, 0.0))
wn.add_junction('A', base_demand=0.01, elevation=0.0, coordinates=(0.0, 0.0))
wn.add_junction('B', base_demand=0.01, elevation=0.0, coordinates=(10.0, 10.0))
wn.add_pipe('R-A', 'R', 'A', 10.0, 0.3, 100)
wn.add_pipe('P', 'A', 'B', 100.0, 0.3, 100)
verts = [(0.0, 0.0), (6.0, 0.0), (6.0, 8.0), (0.0, 0.0), (0.0, 10.0)]
wn.get_link('P').vertices = list(verts)
drawn0 = plen([(0.0, 0.0)] + verts + [(10.0, 10.0)])

bad = []
for at_end in (True, False):
    for s in (0.25, 0.9):
        w2 = wntr.morph.split_pipe(wn, 'P', 'P_B', 'J', add_pipe_at_end=at_end, split_at_point=s)
        first, second = (w2.get_link('P'), w2.get_link('P_B')) if at_end else \
                        (w2.get_link('P_B'), w2.get_link('P'))
        got = list(first.vertices) + list(second.vertices)
        j = w2.get_node('J').coordinates
        drawn = plen([(0.0, 0.0)] + list(first.vertices) + [j]) + \
                plen([j] + list(second.vertices) + [(10.0, 10.0)])
        if got != verts or abs(drawn - drawn0) > 1e-9:
            bad.append((at_end, s, len(got), drawn))
if bad:
    at_end, s, n, drawn = bad[0]
    print('FAIL: %d of 4 splits lose vertices; e.g. add_pipe_at_end=%s split_at_point=%s: '
          '%d of %d vertices kept, drawn length of the two halves %.3f instead of %.3f'
          % (len(bad), at_end, s, n, len(verts), drawn, drawn0))
    sys.exit(1)
print('PASS')
