import sys, os; sys.path.insert(0, os.getcwd())
# C19 / split_pipe: "splitting leaves the hydraulics of the rest of the network unchanged".
# Net3 pipe 330 is Closed in [STATUS] and is opened/closed by two controls on tank 1.
# split_pipe copies the Closed status to the new half but (as documented) no control,
# so the new half stays closed for ever and the 330 line can never carry flow again.
import warnings; warnings.filterwarnings('ignore')
import wntr

wn = wntr.network.WaterNetworkModel('examples/networks/Net3.inp')
wn.options.time.duration = 24 * 3600
wn2 = wntr.morph.split_pipe(wn, '330', '330_B', 'J_330', split_at_point=0.5)

r0 = wntr.sim.EpanetSimulator(wn).run_sim(file_prefix='/tmp/huntout/C19/d2a')
r1 = wntr.sim.EpanetSimulator(wn2).run_sim(file_prefix='/tmp/huntout/C19/d2b')
q0 = float(r0.link['flowrate']['330'].abs().max())
q1 = float(r1.link['flowrate']['330'].abs().max())
dh = float((r1.node['head'][wn.node_name_list] - r0.node['head']).abs().max().max())

# reference: an ordinary open pipe of the same network splits without any effect
wn3 = wntr.morph.split_pipe(wn, '123', '123_B', 'J_123', split_at_point=0.5)
r3 = wntr.sim.EpanetSimulator(wn3).run_sim(file_prefix='/tmp/huntout/C19/d2c')
dh_ref = float((r3.node['head'][wn.node_name_list] - r0.node['head']).abs().max().max())

if dh > 1e-2:
    print('FAIL: Net3 split of pipe 330 (initially Closed, opened by control): new pipe '
          'initial_status=%s with no control; max |flow| in 330 over 24 h %.4f -> %.2e m3/s; '
          'max head change at original nodes %.2f m (splitting open pipe 123: %.2e m)'
          % (wn2.get_link('330_B').initial_status.name, q0, q1, dh, dh_ref))
    sys.exit(1)
print('PASS')
