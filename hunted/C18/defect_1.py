import sys, os; sys.path.insert(0, os.getcwd())
# C18 defect 1: valve_segment_attributes assumes valve_layer.index == 0..n-1.
# valve_segments() itself drops duplicate valves IN PLACE (leaving index gaps), so the
# documented sequence valve_segments -> valve_segment_attributes crashes with KeyError
# for any layer with a duplicate; so does any subset of a layer obtained by filtering.
import warnings
import networkx as nx, pandas as pd
from wntr.metrics.topographic import valve_segments, valve_segment_attributes

# path  A --p1-- B --p2-- C --p3-- D
G = nx.MultiDiGraph()
for k, (u, v) in {'p1': ('A', 'B'), 'p2': ('B', 'C'), 'p3': ('C', 'D')}.items():
    G.add_edge(u, v, key=k)
demand = pd.Series({'A': 1.0, 'B': 2.0, 'C': 3.0, 'D': 4.0})
length = pd.Series({'p1': 10.0, 'p2': 20.0, 'p3': 30.0})

def check(tag, layer):
    with warnings.catch_warnings():
        warnings.simplefilter('ignore')
        ns, ls, ss = valve_segments(G, layer)
    # partition: {A,p1} | {B,p2,C} | {p3,D}; each valve has exactly 1 other bounding valve
    try:
        attr = valve_segment_attributes(layer, ns, ls, demand, length)
    except KeyError as ex:
        return '%s: layer index %s -> KeyError(%s) instead of one row per valve' % (
            tag, list(layer.index), ex)
    if list(attr.index) != list(layer.index):
        return '%s: result index %s != valve numbers %s' % (tag, list(attr.index), list(layer.index))
    for i in layer.index:
        if attr.loc[i, 'num_surround'] != 1:
            return '%s: valve %s num_surround=%s expected 1' % (tag, i, attr.loc[i, 'num_surround'])
    return None

problems = []
# (a) duplicates allowed: valve (p1,B) listed twice
dup = pd.DataFrame([['p1', 'B'], ['p1', 'B'], ['p3', 'C']], columns=['link', 'node'])
problems.append(check('duplicate', dup))
# (b) a subset of a valve layer (row 0 filtered out, valve numbers 1 and 2 kept)
full = pd.DataFrame([['p2', 'B'], ['p1', 'B'], ['p3', 'C']], columns=['link', 'node'])
sub = full[full['link'] != 'p2'].copy()
problems.append(check('subset', sub))

problems = [p for p in problems if p]
if problems:
    print('FAIL: ' + ' ; '.join(problems))
    sys.exit(1)
print('PASS')
