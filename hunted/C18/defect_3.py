import sys, os; sys.path.insert(0, os.getcwd())
# C18 defect 3: a duplicated valve row is counted as an "other" valve by
# valve_segment_attributes, although valve_segments declares duplicates ignored.
import warnings
import networkx as nx, pandas as pd
from wntr.metrics.topographic import valve_segments, valve_segment_attributes

# single pipe A --p1-- B with ONE physical valve (p1, A) listed twice
G = nx.MultiDiGraph()
G.add_edge('A', 'B', key='p1')
layer = pd.DataFrame([['p1', 'A'], ['p1', 'A']], columns=['link', 'node'])
with warnings.catch_warnings():
    warnings.simplefilter('ignore')
    # pass a copy so that the in-place de-duplication does not alter `layer`
    ns, ls, ss = valve_segments(G, layer.copy())
assert ns['A'] != ns['B'] and ls['p1'] == ns['B'] and len(ss) == 2
attr = valve_segment_attributes(layer, ns, ls)
got = [int(x) for x in attr['num_surround']]
# there is exactly one distinct valve in the network: no OTHER valve bounds {A} or {p1,B}
if any(g != 0 for g in got):
    print('FAIL: num_surround=%s expected all 0 (only one distinct valve (p1,A) exists; '
          'its duplicate row is counted as another valve)' % got)
    sys.exit(1)
print('PASS')
