import sys, os; sys.path.insert(0, os.getcwd())
# C18 defect 2: num_surround counts valves that do NOT bound either segment.
# A valve whose link and node lie in the same segment (bypassed through a loop) separates
# nothing, yet _valve_criticality adds every valve whose link OR node is in the two
# segments, so such interior valves are counted as "surrounding".
import warnings
import networkx as nx, pandas as pd
from wntr.metrics.topographic import valve_segments, valve_segment_attributes

# triangle A-B-C with a tail C-D
links = {'p1': ('A', 'B'), 'p2': ('B', 'C'), 'p3': ('C', 'A'), 'p4': ('C', 'D')}
G = nx.MultiDiGraph()
for k, (u, v) in links.items():
    G.add_edge(u, v, key=k)
# valve 0 on p4 at C : separates {p4, D} from the triangle
# valve 1 on p1 at A : p1 is still joined to A via B-p2-C-p3, so it bounds nothing
layer = pd.DataFrame([['p4', 'C'], ['p1', 'A']], columns=['link', 'node'])
with warnings.catch_warnings():
    warnings.simplefilter('ignore')
    ns, ls, ss = valve_segments(G, layer)
assert ns['A'] == ls['p1'], 'precondition: valve 1 is interior to one segment'
assert ls['p4'] == ns['D'] != ns['C'], 'precondition: valve 0 separates two segments'
attr = valve_segment_attributes(layer, ns, ls)

# reference: other distinct valves j whose two sides are in different segments and touch
# one of the two segments separated by valve i
def ref(i):
    a, b = ls[layer.loc[i, 'link']], ns[layer.loc[i, 'node']]
    if a == b:
        return 0
    n = 0
    for j in layer.index:
        c, d = ls[layer.loc[j, 'link']], ns[layer.loc[j, 'node']]
        if j != i and c != d and ({c, d} & {a, b}):
            n += 1
    return n

got = [int(attr.loc[i, 'num_surround']) for i in layer.index]
exp = [ref(i) for i in layer.index]
if got != exp:
    print('FAIL: num_surround=%s expected %s (valve 0 is the only valve bounding its two '
          'segments; interior valve 1 on p1/A was counted)' % (got, exp))
    sys.exit(1)
print('PASS')
