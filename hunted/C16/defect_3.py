import sys, os; sys.path.insert(0, os.getcwd())
# C16 defect 3: iteration limit reached before the first Newton iteration (MAXITER = 0).
# The step is not solved, so the run must stop and say so (RuntimeError if convergence_error=True,
# otherwise warning + error_code = 0 and well-formed, empty, partial results).  Instead the Newton
# solver dies with UnboundLocalError (loop variable used after a loop that never ran).
import warnings
import numpy as np
import wntr


def mk():
    wn = wntr.network.WaterNetworkModel('examples/networks/Net1.inp')
    wn.options.time.duration = 2 * 3600
    return wn

problems = []
# reference behaviour of the sibling limit MAXITER=1 (works as the property demands)
with warnings.catch_warnings(record=True) as w:
    warnings.simplefilter('always')
    r1 = wntr.sim.WNTRSimulator(mk()).run_sim(solver_options={'MAXITER': 1})
assert r1.error_code == 0 and r1.node['head'].shape == (0, 11)
assert any('did not converge' in str(x.message) for x in w)

for ce in (False, True):
    wn = mk()
    try:
        with warnings.catch_warnings(record=True) as w:
            warnings.simplefilter('always')
            r = wntr.sim.WNTRSimulator(wn).run_sim(solver_options={'MAXITER': 0}, convergence_error=ce)
    except RuntimeError as e:
        if not ce or 'did not converge' not in str(e):
            problems.append('ce=%s: unexpected RuntimeError %s' % (ce, e))
        continue
    except Exception as e:
        problems.append('ce=%s: %s: %s' % (ce, type(e).__name__, e))
        continue
    said_so = any('did not converge' in str(x.message) for x in w)
    if ce:
        problems.append('ce=True: no RuntimeError, error_code=%r rows=%d' % (r.error_code, len(r.node['head'])))
    elif r.error_code != 0 or not said_so or len(r.node['head']) != 0 \
            or sorted(r.node['head'].columns) != sorted(wn.node_name_list) \
            or sorted(r.link['flowrate'].columns) != sorted(wn.link_name_list):
        problems.append('ce=False: error_code=%r warning=%s rows=%d' % (r.error_code, said_so, len(r.node['head'])))

if problems:
    print('FAIL: MAXITER=0 (iteration limit hit at step 0) is not reported as a convergence failure:')
    for p in problems:
        print('   ', p)
    sys.exit(1)
print('PASS')
