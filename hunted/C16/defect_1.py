import sys, os; sys.path.insert(0, os.getcwd())
# C16 defect 1: run_sim crashes with TypeError as soon as a scipy solver (primary or backup)
# SUCCEEDS in solving a step, instead of returning well-formed results.
import warnings
warnings.simplefilter('ignore')
import numpy as np, scipy.optimize
import wntr
from wntr.sim.core import _solver_helper
from wntr.sim.hydraulics import create_hydraulic_model


def mk():
    wn = wntr.network.WaterNetworkModel('examples/networks/Net1.inp')
    wn.options.time.duration = 2 * 3600
    return wn

# 1) the scipy solver itself does solve the step (status converged == 1)
wn = mk()
m, upd = create_hydraulic_model(wn)
status, msg, it = _solver_helper(m, scipy.optimize.fsolve, {'full_output': True})
resid = float(np.max(np.abs(m.evaluate_residuals())))
print('fsolve on the Net1 hydraulic model: status=%d iter_count=%r max|residual|=%.2e' % (status, it, resid))
assert status == 1 and resid < 1e-6

ref = wntr.sim.WNTRSimulator(mk()).run_sim()
nsteps = len(ref.node['head'])

problems = []
cases = [('primary fsolve', dict(solver=scipy.optimize.fsolve)),
         ('Newton MAXITER=1 + backup fsolve', dict(solver_options={'MAXITER': 1}, backup_solver=scipy.optimize.fsolve))]
for label, kw in cases:
    for ce in (False, True):
        wn = mk()
        try:
            r = wntr.sim.WNTRSimulator(wn).run_sim(convergence_error=ce, **kw)
        except RuntimeError as e:       # the only exception the property allows (and only for ce=True)
            problems.append('%s ce=%s: RuntimeError %s' % (label, ce, e))
            continue
        except Exception as e:
            problems.append('%s ce=%s: %s: %s' % (label, ce, type(e).__name__, e))
            continue
        h = r.node['head']
        if r.error_code is not None or len(h) != nsteps or sorted(h.columns) != sorted(wn.node_name_list) \
                or not np.isfinite(h.values.astype(float)).all() \
                or np.abs(h.values - ref.node['head'][h.columns].values).max() > 1e-3:
            problems.append('%s ce=%s: malformed/incorrect results, error_code=%r rows=%d' % (label, ce, r.error_code, len(h)))

if problems:
    print('FAIL: solver converged (status 1) but run_sim did not return %d-step results:' % nsteps)
    for p in problems:
        print('   ', p)
    sys.exit(1)
print('PASS')
