import sys, os; sys.path.insert(0, os.getcwd())
# C16 defect 2: a report timestep that is an integer but not a *Python* int (numpy.int64, e.g. taken
# from a pandas index or computed with numpy) is accepted by the option set-up as a numeric report
# step, but the reporting branch of the main loop only recognises (float, int) and falls through to
# the string branch -> AttributeError after the first solved step.  No results are returned.
import warnings
warnings.simplefilter('ignore')
import numpy as np
import wntr


def run(rep):
    wn = wntr.network.WaterNetworkModel('examples/networks/Net1.inp')
    wn.options.time.duration = 6 * 3600
    wn.options.time.hydraulic_timestep = np.int64(3600)   # accepted (coerced by TimeOptions)
    wn.options.time.report_timestep = rep                 # stored as is
    return wn, wntr.sim.WNTRSimulator(wn).run_sim()

wn, ref = run(7200)
expected = list(ref.node['head'].index)          # [0, 7200, 14400, 21600]

problems = []
for rep in (np.int64(7200), np.int32(7200), np.float64(7200.0)):
    try:
        wn, r = run(rep)
    except Exception as e:
        problems.append('report_timestep=%r: %s: %s' % (rep, type(e).__name__, e))
        continue
    idx = list(r.node['head'].index)
    if idx != expected or list(r.link['flowrate'].index) != expected \
            or not np.allclose(r.node['head'].values, ref.node['head'].values):
        problems.append('report_timestep=%r: index %r, expected %r' % (rep, idx, expected))

if problems:
    print('FAIL: expected results on the report grid %r (as with the Python int 7200); got:' % expected)
    for p in problems:
        print('   ', p)
    sys.exit(1)
print('PASS')
