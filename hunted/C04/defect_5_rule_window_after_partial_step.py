import sys, os; sys.path.insert(0, os.getcwd())
import wntr
from wntr.network.controls import *
wn = wntr.network.WaterNetworkModel('examples/networks/Net1.inp')
wn.options.time.duration = 3*3600; wn.options.time.hydraulic_timestep=3600; wn.options.time.rule_timestep=600; wn.options.time.report_timestep='ALL'
for n in list(wn.control_name_list): wn.remove_control(n)
p = wn.get_link('110'); q = wn.get_link('111')
# simple control at 3700 s changes pipe 111 -> partial step at 3700
wn.add_control('c', Control(SimTimeCondition(wn, '=', 3700), ControlAction(q, 'status', 0)))
# rule = 3650 closes pipe 110: must act at the first rule instant >= 3650, i.e. 4200
wn.add_control('r', Rule(SimTimeCondition(wn, '=', 3650), [ControlAction(p, 'status', 0)]))
res = wntr.sim.WNTRSimulator(wn).run_sim()
st = res.link['status']['110']
ch = [(t, int(v)) for t, v in st.items()]
closed = [t for t, v in ch if v == 0]
print(ch)
print("PASS" if closed and closed[0] == 4200 else "FAIL: pipe 110 first closed at %s, expected 4200" % (closed[0] if closed else None))
