import sys, os; sys.path.insert(0, os.getcwd())
# C04 defect 3: in a rule, "SYSTEM TIME = T" (also CLOCKTIME) is TRUE at EVERY rule instant between T and the
# first rule instant after the next accepted hydraulic solution, not only at the first rule instant >= T:
# the window tested is (last hydraulic solution, now] instead of (previous rule instant, now].
# If the rule's action changes nothing at T (target already has the value), no partial step is inserted and
# the stale rule keeps firing, overriding a lower-priority rule whose own instant comes later.
import warnings
warnings.simplefilter('ignore')
import wntr
from wntr.network.controls import Rule, ControlAction, SimTimeCondition

wn = wntr.network.WaterNetworkModel()
wn.add_reservoir('R', base_head=50)
wn.add_junction('J1', base_demand=0.01)
wn.add_junction('J2', base_demand=0.01)
wn.add_pipe('P1', 'R', 'J1', length=100, diameter=0.3, roughness=100)
wn.add_pipe('P2', 'J1', 'J2', length=100, diameter=0.3, roughness=100)
wn.add_pipe('P3', 'R', 'J2', length=100, diameter=0.3, roughness=100)
t = wn.options.time
t.duration = 6 * 3600; t.hydraulic_timestep = 3600; t.pattern_timestep = 3600
t.rule_timestep = 600; t.report_timestep = 'ALL'; t.start_clocktime = 0
p2 = wn.get_link('P2')
# RULE A: IF SYSTEM TIME = 2:10 THEN PIPE P2 STATUS IS OPEN   PRIORITY 5   (P2 is already open: no change)
# RULE B: IF SYSTEM TIME = 2:30 THEN PIPE P2 STATUS IS CLOSED PRIORITY 1
wn.add_control('A', Rule(SimTimeCondition(wn, '=', 2 * 3600 + 600), [ControlAction(p2, 'status', 1)], priority=5, name='A'))
wn.add_control('B', Rule(SimTimeCondition(wn, '=', 2 * 3600 + 1800), [ControlAction(p2, 'status', 0)], priority=1, name='B'))

s = wntr.sim.WNTRSimulator(wn).run_sim().link['status']['P2']
got, last = [], None
for tt, v in s.items():
    if v != last:
        got.append((int(tt), int(v))); last = v
# Only B fires at 2:30 (A's instant was 2:10), so P2 closes at 9000 s and stays closed
# (EPANET 2.2 on the same rules: [(0, 1), (9000, 0)])
expected = [(0, 1), (9000, 0)]
if got != expected:
    print('FAIL: P2 status changes %s, expected %s (rule A "TIME = 2:10" still fires at 2:30 and 3:00 and '
          'outranks rule B "TIME = 2:30")' % (got, expected))
    sys.exit(1)
print('PASS')
