import sys, os; sys.path.insert(0, os.getcwd())
# C04 defect 2: in a rule, "SYSTEM TIME <= T" / "SYSTEM CLOCKTIME <= T" stays TRUE after T, until the first
# rule instant that follows the next accepted hydraulic solution (the "crossing" branch of evaluate() tests
# prev_time < T, prev_time being the last hydraulic solution), so the ELSE branch acts up to
# hydraulic_timestep + rule_timestep late.
import warnings
warnings.simplefilter('ignore')
import wntr
from wntr.network.controls import Rule, ControlAction, SimTimeCondition, TimeOfDayCondition

def build(start_clocktime):
    wn = wntr.network.WaterNetworkModel()
    wn.add_reservoir('R', base_head=50)
    wn.add_junction('J1', base_demand=0.01)
    wn.add_junction('J2', base_demand=0.01)
    wn.add_pipe('P1', 'R', 'J1', length=100, diameter=0.3, roughness=100)
    wn.add_pipe('P2', 'J1', 'J2', length=100, diameter=0.3, roughness=100)
    wn.add_pipe('P3', 'R', 'J2', length=100, diameter=0.3, roughness=100)
    t = wn.options.time
    t.duration = 6 * 3600; t.hydraulic_timestep = 3600; t.pattern_timestep = 3600
    t.rule_timestep = 600; t.report_timestep = 'ALL'; t.start_clocktime = start_clocktime
    return wn

def changes(wn):
    s = wntr.sim.WNTRSimulator(wn).run_sim().link['status']['P2']
    out, last = [], None
    for tt, v in s.items():
        if v != last:
            out.append((int(tt), int(v))); last = v
    return out

T = 2 * 3600 + 35 * 60                   # 2:35, off the rule grid and off the hydraulic grid
# IF time <= 2:35 THEN P2 CLOSED ELSE P2 OPEN: closed at the first rule instant (600 s), and open again at the
# first rule instant after 2:35, i.e. 2:40 = 9600 s (EPANET 2.2 gives exactly [(0,1),(600,0),(9600,1)])
expected = [(0, 1), (600, 0), (9600, 1)]
bad = []
cases = [('SYSTEM TIME <= 2:35', 0, lambda w: SimTimeCondition(w, '<=', T)),
         ('SYSTEM CLOCKTIME <= 3:35 (start_clocktime 1:00)', 3600, lambda w: TimeOfDayCondition(w, '<=', T + 3600))]
for label, start, make in cases:
    wn = build(start)
    cond = make(wn)
    p2 = wn.get_link('P2')
    wn.add_control('r', Rule(cond, [ControlAction(p2, 'status', 0)], [ControlAction(p2, 'status', 1)], name='r'))
    got = changes(wn)
    if got != expected:
        bad.append('%s: P2 status changes %s, expected %s' % (label, got, expected))
if bad:
    print('FAIL: ' + ' | '.join(bad))
    sys.exit(1)
print('PASS')
