import sys, os; sys.path.insert(0, os.getcwd())
# C04 defect 1: a rule clock time written without a colon but with AM/PM ("8 AM", "6 PM" - the form used
# in the EPANET manual's own rule example) cannot be read: TimeOfDayCondition/SimTimeCondition send any
# string without ':' to float(), which raises ValueError, so the rule never acts.
import tempfile, warnings
warnings.simplefilter('ignore')
import wntr

wn = wntr.network.WaterNetworkModel()
wn.add_reservoir('R', base_head=50)
wn.add_junction('J1', base_demand=0.01)
wn.add_junction('J2', base_demand=0.01)
wn.add_pipe('P1', 'R', 'J1', length=100, diameter=0.3, roughness=100)
wn.add_pipe('P2', 'J1', 'J2', length=100, diameter=0.3, roughness=100)
wn.add_pipe('P3', 'R', 'J2', length=100, diameter=0.3, roughness=100)
t = wn.options.time
t.duration = 6 * 3600; t.hydraulic_timestep = 3600; t.report_timestep = 3600
t.pattern_timestep = 3600; t.rule_timestep = 600; t.start_clocktime = 0

inp = os.path.join(tempfile.mkdtemp(), 'c04_d1.inp')
wntr.network.write_inpfile(wn, inp)
rule = ("RULE 1\nIF SYSTEM CLOCKTIME >= 2 AM\nAND SYSTEM CLOCKTIME < 4 AM\n"
        "THEN PIPE P2 STATUS IS CLOSED\nELSE PIPE P2 STATUS IS OPEN\n")
txt = open(inp).read()
assert '[RULES]\n' in txt
open(inp, 'w').write(txt.replace('[RULES]\n', '[RULES]\n' + rule, 1))

expected = {h * 3600: (0 if 2 <= h < 4 else 1) for h in range(7)}  # closed exactly on [2:00, 4:00)
try:
    wn2 = wntr.network.WaterNetworkModel(inp)
    res = wntr.sim.WNTRSimulator(wn2).run_sim()
    got = {int(k): int(v) for k, v in res.link['status']['P2'].items()}
except Exception as e:
    print('FAIL: rule "IF SYSTEM CLOCKTIME >= 2 AM AND SYSTEM CLOCKTIME < 4 AM" is refused: %s: %s '
          '(expected P2 status by hour %s)' % (type(e).__name__, e, [expected[h * 3600] for h in range(7)]))
    sys.exit(1)
if got != expected:
    print('FAIL: P2 status by hour %s, expected %s' % ([got.get(h * 3600) for h in range(7)],
                                                     [expected[h * 3600] for h in range(7)]))
    sys.exit(1)
print('PASS')
