import sys, os; sys.path.insert(0, os.getcwd())
# C04 defect 4: TimeOfDayCondition treats the strict relation '>' / 'after' as '>=': a rule
# "IF SYSTEM CLOCKTIME > 7:00 AM" is already TRUE at 7:00:00 itself. The sibling SimTimeCondition (and EPANET,
# for both) is strict: TRUE only on the open interval after the stated time.
import warnings
warnings.simplefilter('ignore')
import wntr
from wntr.network.controls import Rule, ControlAction, SimTimeCondition, TimeOfDayCondition

def first_close(make_cond, start_clocktime):
    wn = wntr.network.WaterNetworkModel()
    wn.add_reservoir('R', base_head=50)
    wn.add_junction('J1', base_demand=0.01)
    wn.add_junction('J2', base_demand=0.01)
    wn.add_pipe('P1', 'R', 'J1', length=100, diameter=0.3, roughness=100)
    wn.add_pipe('P2', 'J1', 'J2', length=100, diameter=0.3, roughness=100)
    wn.add_pipe('P3', 'R', 'J2', length=100, diameter=0.3, roughness=100)
    t = wn.options.time
    t.duration = 4 * 3600; t.hydraulic_timestep = 3600; t.pattern_timestep = 3600
    t.rule_timestep = 600; t.report_timestep = 'ALL'; t.start_clocktime = start_clocktime
    p2 = wn.get_link('P2')
    wn.add_control('r', Rule(make_cond(wn), [ControlAction(p2, 'status', 0)], name='r'))
    s = wntr.sim.WNTRSimulator(wn).run_sim().link['status']['P2']
    closed = [int(tt) for tt, v in s.items() if v == 0]
    return closed[0] if closed else None

# start_clocktime 5:00 AM, so clock 7:00 AM is simulation time 2:00 = 7200 s (a rule instant).
# '>' is false at 7200 s itself; the first rule instant strictly after it is 7800 s (EPANET 2.2: 7800).
expected = 7800
sim = first_close(lambda w: SimTimeCondition(w, '>', 2 * 3600), 5 * 3600)          # strict sibling
clk = first_close(lambda w: TimeOfDayCondition(w, '>', 7 * 3600), 5 * 3600)
clk_after = first_close(lambda w: TimeOfDayCondition(w, 'after', 7 * 3600), 5 * 3600)
clk_once = first_close(lambda w: TimeOfDayCondition(w, '>', 7 * 3600, repeat=False), 5 * 3600)
if not (sim == clk == clk_after == clk_once == expected):
    print('FAIL: rule closes P2 at: SYSTEM TIME > 2:00 -> %s s; SYSTEM CLOCKTIME > 7:00 AM -> %s s; '
          "'after' -> %s s; repeat=False -> %s s; expected %s s for all (strict '>')"
          % (sim, clk, clk_after, clk_once, expected))
    sys.exit(1)
print('PASS')
