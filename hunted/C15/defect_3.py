import sys, os; sys.path.insert(0, os.getcwd())
# C15 defect 3: a float constant that is a numpy scalar (numpy.float64 IS a python float subclass;
# it is what indexing an array / pandas object returns) is accepted as the LEFT operand of
# + - * / ** but building fails with AttributeError when the very same constant is the RIGHT operand
# (or a bound of inequality()).  "Building such models never fails for valid expressions."
import numpy as np
import wntr.sim.aml as aml

coeff = np.array([2.0, 0.5])
k = coeff[0]
assert isinstance(k, float)

builders = [
    ('k*x', lambda x: k * x, lambda v: 2.0 * v, lambda v: 2.0),
    ('x*k', lambda x: x * k, lambda v: v * 2.0, lambda v: 2.0),
    ('k+x', lambda x: k + x, lambda v: 2.0 + v, lambda v: 1.0),
    ('x+k', lambda x: x + k, lambda v: v + 2.0, lambda v: 1.0),
    ('k-x', lambda x: k - x, lambda v: 2.0 - v, lambda v: -1.0),
    ('x-k', lambda x: x - k, lambda v: v - 2.0, lambda v: 1.0),
    ('k/x', lambda x: k / x, lambda v: 2.0 / v, lambda v: -2.0 / v ** 2),
    ('x/k', lambda x: x / k, lambda v: v / 2.0, lambda v: 0.5),
    ('k**x', lambda x: k ** x, lambda v: 2.0 ** v, lambda v: 2.0 ** v * np.log(2.0)),
    ('x**k', lambda x: x ** k, lambda v: v ** 2.0, lambda v: 2.0 * v),
]
problems = []
for name, build, f, df in builders:
    m = aml.Model()
    m.x = aml.Var(1.5)
    try:
        m.c = aml.Constraint(build(m.x))
        m.set_structure()
        r = m.evaluate_residuals()[m.c.index]
        J = m.evaluate_jacobian()[m.c.index, m.x.index]
    except Exception as e:
        problems.append('%s: %s(%s)' % (name, type(e).__name__, e))
        continue
    if abs(r - f(1.5)) > 1e-12 or abs(J - df(1.5)) > 1e-12:
        problems.append('%s: residual %r (true %r), jac %r (true %r)' % (name, r, f(1.5), J, df(1.5)))

if problems:
    print('FAIL: %d of %d builds with a numpy.float64 constant failed: ' % (len(problems), len(builders)) + '; '.join(problems))
    sys.exit(1)
print('PASS')
