import sys, os; sys.path.insert(0, os.getcwd())
# C15 defect 1: direct evaluation of a constraint whose expression (or selected conditional branch)
# is a bare variable returns a stale value after the variable values were loaded through the
# compiled evaluator (Model.load_var_values_from_x / evaluate_residuals(x)), so the compiled
# residual and the direct evaluation of the same constraint disagree.
import numpy as np
import wntr.sim.aml as aml

m = aml.Model()
m.f = aml.Var(0.001)          # e.g. flow of a closed link: WNTR writes the constraint "f = 0" as Constraint(f)
m.h = aml.Var(10.0)
m.closed = aml.Constraint(m.f)
ce = aml.ConditionalExpression()  # piecewise constraint with a bare variable as one branch
ce.add_condition(aml.inequality(m.h, ub=0), m.h)
ce.add_final_expr(m.h * m.f)
m.pw = aml.Constraint(ce)
m.set_structure()

x = np.zeros(2)
x[m.f.index] = 0.75
x[m.h.index] = -2.0
m.load_var_values_from_x(x)        # what the Newton solver does on every iteration
r = m.evaluate_residuals()

problems = []
for con, expected in ((m.closed, 0.75), (m.pw, -2.0)):
    compiled = r[con.index]
    direct = con.evaluate()
    if abs(compiled - expected) > 1e-12:
        problems.append('%s: compiled residual %r != true value %r' % (con.name, compiled, expected))
    if abs(direct - compiled) > 1e-12:
        problems.append('%s: compiled residual %r but direct evaluation %r (true %r)' % (con.name, compiled, direct, expected))
if abs(aml.value(m.f) - m.f.value) > 1e-12:
    problems.append('aml.value(f)=%r but f.value=%r' % (aml.value(m.f), m.f.value))

if problems:
    print('FAIL: ' + '; '.join(problems))
    sys.exit(1)
print('PASS')
