import sys, os; sys.path.insert(0, os.getcwd())
# C15 defect 2: the compiled Jacobian of an if/else expression is NaN whenever the branch that is
# NOT selected has an undefined derivative at the current point, although the residual (and the
# python-side derivative) are finite and correct.  Example: signed square root
#     g(x) = sqrt(x) if x >= 0 else -sqrt(-x),   g'(x) = 0.5/sqrt(|x|)
import math
import wntr.sim.aml as aml
from wntr.sim.aml.expr import if_else

m = aml.Model()
m.x = aml.Var(4.0)
m.c = aml.Constraint(if_else(aml.inequality(m.x, lb=0), m.x ** 0.5, -(-m.x) ** 0.5))
m.set_structure()

problems = []
for xv in (4.0, -4.0, 0.25):
    m.x.value = xv
    r = m.evaluate_residuals()[m.c.index]
    J = m.evaluate_jacobian()[m.c.index, m.x.index]
    true_r = math.copysign(math.sqrt(abs(xv)), xv)
    true_J = 0.5 / math.sqrt(abs(xv))
    direct = m.c.evaluate()
    if not abs(r - true_r) < 1e-12 or not abs(direct - true_r) < 1e-12:
        problems.append('x=%r residual %r direct %r true %r' % (xv, r, direct, true_r))
    if not abs(J - true_J) < 1e-10:
        problems.append('x=%r: residual %r (true %r) but compiled dg/dx = %r, true %r' % (xv, r, true_r, J, true_J))

if problems:
    print('FAIL: ' + '; '.join(problems))
    sys.exit(1)
print('PASS')
