import sys, os; sys.path.insert(0, os.getcwd())
# C03 / flow-unit independence: a tank with a volume curve whose last point is the tank's
# maximum level simulates fine when the INP file is written in LPS, but the file written in
# GPM (or any US unit) is rejected by EPANET (error 225), because [CURVES] x-values are
# written with 6 decimals ('{x:12f}') while the [TANKS] levels are written with 11 digits.
import tempfile, warnings
warnings.filterwarnings('ignore')
import numpy as np
import wntr


def build():
    wn = wntr.network.WaterNetworkModel()
    wn.add_pattern('p1', [1.0, 1.4, 0.6, 1.2])
    wn.add_reservoir('R', base_head=50.0)
    wn.add_junction('J1', base_demand=0.02, elevation=10.0, demand_pattern='p1')
    wn.add_curve('VC', 'VOLUME', [(0.0, 0.0), (2.0, 150.0), (4.0, 500.0), (6.0, 700.0)])
    wn.add_tank('T', elevation=40.0, init_level=3.0, min_level=0.5, max_level=6.0,
                diameter=12.0, vol_curve='VC')
    wn.add_pipe('P1', 'R', 'J1', length=800, diameter=0.3, roughness=110)
    wn.add_pipe('P2', 'J1', 'T', length=300, diameter=0.3, roughness=120)
    wn.options.time.duration = 6 * 3600
    return wn


tmp = tempfile.mkdtemp()
ref = wntr.sim.WNTRSimulator(build()).run_sim().node['pressure']['T']   # tank level, m
problems = []
for units in ['LPS', 'CMH', 'GPM', 'CFS', 'MGD']:
    wn = build()
    wn.options.hydraulic.inpfile_units = units
    try:
        res = wntr.sim.EpanetSimulator(wn).run_sim(file_prefix=os.path.join(tmp, 'vc_' + units))
        lev = res.node['pressure']['T']
        d = float(np.abs(lev.values - ref.values).max())
        print('%-4s max |tank level WNTR - EPANET| = %.2e m' % (units, d))
        if d > 1e-2:
            problems.append('%s: tank level differs by %.3g m' % (units, d))
    except Exception as e:
        inp = open(os.path.join(tmp, 'vc_' + units + '.inp')).read().split('\n')
        tank = [l for l in inp if l.startswith(' T ')][0].split()
        last = [l for l in inp if l.startswith(' VC ')][-1].split()
        problems.append('%s: EPANET refuses the file WNTR wrote (%s, EPANET error 225 '
                        'invalid lower/upper levels for tank); [TANKS] max level written %s > last [CURVES] x '
                        'written %s' % (units, type(e).__name__, tank[4], last[1]))
if problems:
    print('FAIL: ' + '\n      '.join(problems))
    sys.exit(1)
print('PASS')
