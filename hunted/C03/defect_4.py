import sys, os; sys.path.insert(0, os.getcwd())
# C03 / pattern clock: EPANET reduces the hydraulic time step to the pattern time step when the
# pattern step is shorter (users manual, [TIMES] HYDRAULIC TIMESTEP), so every pattern period is
# simulated.  WNTRSimulator._setup_sim_options makes that adjustment for the report time step only;
# with pattern_timestep < hydraulic_timestep it samples the pattern once per hydraulic step and
# integrates the tanks with every other multiplier skipped.
import tempfile, warnings
warnings.filterwarnings('ignore')
import numpy as np
import wntr


def build(hyd=3600):
    wn = wntr.network.WaterNetworkModel()
    wn.add_pattern('p1', [1.0, 3.0, 0.5, 2.5, 0.2, 2.8])       # one value per 30 min
    wn.add_reservoir('R', base_head=45.0)
    wn.add_junction('J1', base_demand=0.03, elevation=10.0, demand_pattern='p1')
    wn.add_tank('T', elevation=40.0, init_level=3.0, min_level=0.5, max_level=8.0, diameter=10.0)
    wn.add_pipe('P1', 'R', 'J1', length=1500, diameter=0.2, roughness=100)
    wn.add_pipe('P2', 'J1', 'T', length=300, diameter=0.3, roughness=120)
    wn.options.time.duration = 6 * 3600
    wn.options.time.hydraulic_timestep = hyd
    wn.options.time.pattern_timestep = 1800
    wn.options.time.report_timestep = 3600
    return wn


tmp = tempfile.mkdtemp()
wn = build()
rw = wntr.sim.WNTRSimulator(wn).run_sim()
re_ = wntr.sim.EpanetSimulator(build()).run_sim(file_prefix=os.path.join(tmp, 'pat'))
lw = rw.node['pressure']['T']; le = re_.node['pressure']['T']          # tank level at report steps
fw = rw.link['flowrate']['P2']; fe = re_.link['flowrate']['P2']
print('t[h]   ' + ' '.join('%7d' % (t // 3600) for t in le.index))
print('WNTR   ' + ' '.join('%7.3f' % v for v in lw.values))
print('EPANET ' + ' '.join('%7.3f' % v for v in le.values))
# control: the same model with the hydraulic step set to the pattern step by hand agrees
rc = wntr.sim.WNTRSimulator(build(hyd=1800)).run_sim()
print('WNTR*  ' + ' '.join('%7.3f' % v for v in rc.node['pressure']['T'].loc[le.index].values) + '   (hydraulic step 1800 s)')
dl = float(np.abs(lw.values - le.values).max())
dq = float(np.abs(fw.values - fe.values).max())
if dl > 0.01 or dq > 1e-5:
    k = int(np.abs(lw.values - le.values).argmax())
    print('FAIL: tank level differs by %.3f m at t=%d s (WNTRSimulator %.3f m, EPANET %.3f m); '
          'tank inflow differs by up to %.5f m3/s; with hydraulic step = pattern step WNTR differs from EPANET by %.1e m'
          % (dl, le.index[k], lw.values[k], le.values[k], dq,
             float(np.abs(rc.node['pressure']['T'].loc[le.index].values - le.values).max())))
    sys.exit(1)
print('PASS')
