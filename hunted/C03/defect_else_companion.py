import warnings; warnings.filterwarnings("ignore")
import wntr, numpy as np
from wntr.network import controls as C
from wntr.network.base import LinkStatus
def build():
    wn = wntr.network.WaterNetworkModel()
    wn.add_reservoir("R", base_head=50.0)
    wn.add_junction("J1", base_demand=0.01, elevation=0.0)
    wn.add_junction("J2", base_demand=0.01, elevation=0.0)
    wn.add_tank("T", elevation=20.0, init_level=2.0, min_level=0.0, max_level=10.0, diameter=5.0)
    wn.add_pipe("P1", "R", "J1", length=100, diameter=0.3, roughness=100)
    wn.add_valve("V", "J1", "J2", diameter=0.3, valve_type="TCV", initial_setting=50.0, initial_status="CLOSED")
    wn.add_pipe("P2", "J1", "J2", length=1000, diameter=0.1, roughness=100)
    wn.add_pipe("P3", "J2", "T", length=100, diameter=0.3, roughness=100)
    wn.options.time.duration = 4*3600
    wn.options.time.hydraulic_timestep = 3600
    wn.options.time.report_timestep = 3600
    return wn
for variant in ("else", "then"):
    wn = build()
    v = wn.get_link("V"); t = wn.get_node("T"); p2 = wn.get_link("P2")
    cond = C.ValueCondition(t, "level", ">", 100.0)   # never true
    if variant == "else":
        r = C.Rule(cond, [C.ControlAction(p2, "status", LinkStatus.Open)], [C.ControlAction(v, "setting", 5.0)], name="r")
    else:
        cond = C.ValueCondition(t, "level", "<", 100.0)   # always true
        r = C.Rule(cond, [C.ControlAction(p2, "status", LinkStatus.Open)], [C.ControlAction(v, "setting", 5.0)], name="r")
    wn.add_control("r", r)
    res_w = wntr.sim.WNTRSimulator(wn).run_sim()
    wn2 = build(); 
    v = wn2.get_link("V"); t = wn2.get_node("T"); p2 = wn2.get_link("P2")
    cond = C.ValueCondition(t, "level", ">" if variant=="else" else "<", 100.0)
    wn2.add_control("r", C.Rule(cond, [C.ControlAction(p2, "status", LinkStatus.Open)], [C.ControlAction(v, "setting", 5.0)], name="r"))
    res_e = wntr.sim.EpanetSimulator(wn2).run_sim()
    print(variant, "WNTR V status", res_w.link["status"]["V"].values, "flow", np.round(res_w.link["flowrate"]["V"].values,4))
    print(variant, "EPANET V status", res_e.link["status"]["V"].values, "flow", np.round(res_e.link["flowrate"]["V"].values,4))
