import sys, os; sys.path.insert(0, os.getcwd())
# C03 / "reading an EPANET-format INP file and simulating it gives what EPANET itself computes":
# with metric flow units, "[OPTIONS] PRESSURE KPA" makes every pressure quantity of the file
# (PRV/PSV/PBV settings, control/rule pressure thresholds, PDD pressures, reported pressures) kPa.
# WNTR stores the option (inpfile_pressure_units) and writes it back, but the INP reader, the INP
# writer and the BIN reader convert pressures from the flow units alone, i.e. treat kPa as metres.
import tempfile, warnings
warnings.filterwarnings('ignore')
import wntr, wntr.epanet.toolkit, wntr.epanet.io

INP = """[TITLE]
pressure in kPa
[JUNCTIONS]
 J1 10 0
 J2 10 0
 J3 5  20
[RESERVOIRS]
 R 60
[PIPES]
 P1 R  J1 500 300 110 0 Open
 P2 J2 J3 400 250 100 0 Open
[VALVES]
 V1 J1 J2 250 PRV 200 0
[TIMES]
 DURATION 2:00
 HYDRAULIC TIMESTEP 1:00
[OPTIONS]
 UNITS LPS
 HEADLOSS H-W
 PRESSURE KPA
[END]
"""
tmp = tempfile.mkdtemp()
inp = os.path.join(tmp, 'kpa.inp')
open(inp, 'w').write(INP)

# what EPANET itself computes for the file (heads are in m whatever the pressure unit)
en = wntr.epanet.toolkit.ENepanet(version=2.2)
en.ENopen(inp, os.path.join(tmp, 'd.rpt'), os.path.join(tmp, 'd.bin'))
en.ENsolveH(); en.ENsolveQ(); en.ENreport(); en.ENclose()
ref = wntr.epanet.io.BinFile().read(os.path.join(tmp, 'd.bin'))
h_ref = ref.node['head'].loc[0, 'J2']            # 10 m + 200 kPa = 30.39 m

wn = wntr.network.WaterNetworkModel(inp)
setting = wn.get_link('V1').initial_setting       # should be 200 kPa = 20.39 m
res = wntr.sim.WNTRSimulator(wn).run_sim()
h_wntr = res.node['head'].loc[0, 'J2']
wn.reset_initial_values()
eps = wntr.sim.EpanetSimulator(wn).run_sim(file_prefix=os.path.join(tmp, 'rt'))
h_eps = eps.node['head'].loc[0, 'J3']; p_eps = eps.node['pressure'].loc[0, 'J3']
elev = wn.get_node('J3').elevation

print('PRV setting read: %.3f m (200 kPa = %.3f m)' % (setting, 200 / 9.80665))
print('head at J2 (downstream of PRV): EPANET on the file %.3f m, WNTRSimulator %.3f m' % (h_ref, h_wntr))
print('EpanetSimulator at J3: head %.3f m, elevation %.1f m, "pressure" %.3f (SI results are in m)' % (h_eps, elev, p_eps))
bad = []
if abs(h_wntr - h_ref) > 0.05:
    bad.append('head at J2: WNTRSimulator %.3f m vs EPANET %.3f m (PRV setting read as %.1f m instead of %.2f m)'
               % (h_wntr, h_ref, setting, 200 / 9.80665))
if abs(p_eps - (h_eps - elev)) > 0.05:
    bad.append('EpanetSimulator pressure at J3 %.3f vs head-elevation %.3f m (kPa reported as m)'
               % (p_eps, h_eps - elev))
if bad:
    print('FAIL: ' + '; '.join(bad))
    sys.exit(1)
print('PASS')
