import sys, os; sys.path.insert(0, os.getcwd())
import wntr, numpy as np
wn = wntr.network.WaterNetworkModel()
wn.add_pattern('hp', [1.0, 1.1, 1.2, 1.3, 1.4, 1.5])
wn.add_reservoir('R', base_head=50.0, head_pattern='hp')
wn.add_junction('J', base_demand=0.01, elevation=0.0)
wn.add_pipe('P', 'R', 'J', length=100, diameter=0.3, roughness=100)
wn.options.time.duration = 4*3600; wn.options.time.hydraulic_timestep=3600; wn.options.time.pattern_timestep=3600; wn.options.time.report_timestep=3600
wn.options.time.pattern_start = 2*3600
a = wntr.sim.WNTRSimulator(wn).run_sim().node['head']['R'].values
b = wntr.sim.EpanetSimulator(wn).run_sim().node['head']['R'].values
print(np.round(a,3), np.round(b,3))
print("PASS" if np.abs(a-b).max() < 1e-3 else "FAIL: reservoir head differs from EPANET by %.3f m" % np.abs(a-b).max())
