import sys, os; sys.path.insert(0, os.getcwd())
# C03 / "reading an EPANET-format INP file and simulating it gives what EPANET itself computes":
# [TIMES] values may carry a unit (SECONDS/SEC, MINUTES/MIN, HOURS, DAYS - EPANET users manual).
# InpFile._read_times ignores the unit word and always multiplies by 3600, so
# "HYDRAULIC TIMESTEP 30 MIN" becomes 30 hours and "PATTERN TIMESTEP 60 MIN" 60 hours.
import tempfile, warnings
warnings.filterwarnings('ignore')
import numpy as np
import wntr, wntr.epanet.toolkit, wntr.epanet.io

INP = """[TITLE]
times with units
[JUNCTIONS]
 J1 10 0
 J2 12 10
 J3 8  15
[RESERVOIRS]
 R 60
[TANKS]
 T 40 3 0.5 6 12 0
[PIPES]
 P1 R  J1 500 300 110 0 Open
 P2 J1 J2 400 250 100 0 Open
 P3 J2 T  300 300 120 0 Open
 P4 J2 J3 300 200 120 0 Open
[PATTERNS]
 1 0.5 1.5 2.0 1.0
[TIMES]
 DURATION 6 HOURS
 HYDRAULIC TIMESTEP 30 MIN
 PATTERN TIMESTEP 60 MIN
 REPORT TIMESTEP 1:00
[OPTIONS]
 UNITS LPS
 HEADLOSS H-W
[END]
"""
tmp = tempfile.mkdtemp()
inp = os.path.join(tmp, 'times.inp')
open(inp, 'w').write(INP)

# what EPANET itself computes for the file
en = wntr.epanet.toolkit.ENepanet(version=2.2)
en.ENopen(inp, os.path.join(tmp, 'd.rpt'), os.path.join(tmp, 'd.bin'))
en.ENsolveH(); en.ENsolveQ(); en.ENreport(); en.ENclose()
ref = wntr.epanet.io.BinFile().read(os.path.join(tmp, 'd.bin'))

wn = wntr.network.WaterNetworkModel(inp)
t = wn.options.time
print('read: duration=%s hydraulic=%s pattern=%s report=%s (expected 21600 1800 3600 3600)'
      % (t.duration, t.hydraulic_timestep, t.pattern_timestep, t.report_timestep))
res = wntr.sim.WNTRSimulator(wn).run_sim()
times = [x for x in ref.node['head'].index if x in res.node['head'].index]
dh = (res.node['head'].loc[times, ref.node['head'].columns] - ref.node['head'].loc[times]).abs()
dq = (res.node['demand'].loc[times, ref.node['demand'].columns] - ref.node['demand'].loc[times]).abs()
col = dh.max().idxmax(); tt = dh[col].idxmax()
ok_opts = (t.duration, t.hydraulic_timestep, t.pattern_timestep, t.report_timestep) == (21600, 1800, 3600, 3600)
if not ok_opts or len(times) != len(ref.node['head'].index) or dh.max().max() > 0.01 or dq.max().max() > 1e-5:
    print('FAIL: hydraulic_timestep read as %s s (EPANET: 1800), pattern_timestep %s s (EPANET: 3600); '
          'common report steps %d of %d; max head difference %.3f m at node %s t=%d s (WNTR %.3f, EPANET %.3f); '
          'max demand difference %.4f m3/s'
          % (t.hydraulic_timestep, t.pattern_timestep, len(times), len(ref.node['head'].index),
             dh.max().max(), col, tt, res.node['head'].loc[tt, col], ref.node['head'].loc[tt, col], dq.max().max()))
    sys.exit(1)
print('PASS')
